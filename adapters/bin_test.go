// Replay adapter "bin": bits-of-binary data survives encode/decode.
// Injected by overlay as /repo/bin/zz_gvc_adapter_test.go (package bin_test).
package bin_test

import (
	"bytes"
	"encoding/xml"
	"fmt"
	"testing"

	"mellium.im/xmpp/bin"
)

func TestGvcAdapterBinDataRoundTrip(t *testing.T) {
	bad := false
	for _, in := range [][]byte{{1}, {1, 2}, {1, 2, 3}, {1, 2, 3, 4}} {
		out, err := xml.Marshal(&bin.Data{CID: "sha1+8f35fef110ffc5df08d579a50083ff9308fb6242@bob.xmpp.org", Type: "image/png", Data: in})
		if err != nil {
			fmt.Printf("NOT-REPRODUCED bin: marshal failed: %v\n", err)
			return
		}
		var got bin.Data
		if err := xml.Unmarshal(out, &got); err != nil {
			fmt.Printf("NOT-REPRODUCED bin: unmarshal failed: %v\n", err)
			return
		}
		if !bytes.Equal(got.Data, in) {
			fmt.Printf("REPRODUCED bin: Data %v encodes to %s and decodes to %v\n", in, out, got.Data)
			bad = true
		}
	}
	if bad {
		t.Fail()
		return
	}
	fmt.Println("NOT-REPRODUCED bin: data of every length modulo 3 round-trips")
}
