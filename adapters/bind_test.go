// Replay adapter "bind": the initiator's resource binding request must carry
// the resourcepart of its own address inside <resource/>.
// Injected by overlay as /repo/zz_gvc_adapter_test.go (package xmpp_test).
package xmpp_test

import (
	"bytes"
	"context"
	"fmt"
	"io"
	"strings"
	"testing"

	"mellium.im/xmpp"
	"mellium.im/xmpp/internal/xmpptest"
	"mellium.im/xmpp/jid"
	"mellium.im/xmpp/stanza"
)

func TestGvcAdapterBindResource(t *testing.T) {
	var out bytes.Buffer
	rw := struct {
		io.Reader
		io.Writer
	}{strings.NewReader(``), &out}
	origin := jid.MustParse("me@example.net/myres")
	s, err := xmpp.NewSession(context.Background(), jid.MustParse("example.net"), origin, struct {
		io.Reader
		io.Writer
	}{io.MultiReader(strings.NewReader(`<stream:stream from="example.net" to="me@example.net/myres" id="123" version="1.0" xmlns="jabber:client" xmlns:stream="http://etherx.jabber.org/streams">`), rw), rw}, 0, xmpptest.NopNegotiator(xmpp.Authn, "jabber:client"))
	if err != nil {
		fmt.Printf("NOT-REPRODUCED bind: could not build the session: %v\n", err)
		return
	}
	_, _, _ = xmpp.BindResource().Negotiate(context.Background(), s, nil)
	if !strings.Contains(out.String(), "<resource>myres</resource>") {
		fmt.Printf("REPRODUCED bind: the request does not ask for the resourcepart of the local address: %s\n", out.String())
		t.Fail()
		return
	}
	fmt.Println("NOT-REPRODUCED bind: request carries <resource>myres</resource>")
}

// The receiving side's callback refuses the requested resource with a stanza
// error: the reply must be an error IQ and the feature must not report the
// session ready with a nil error.
func TestGvcAdapterBindRefused(t *testing.T) {
	var out bytes.Buffer
	rw := struct {
		io.Reader
		io.Writer
	}{strings.NewReader(`<iq xmlns="jabber:client" id="b1" type="set"><bind xmlns="urn:ietf:params:xml:ns:xmpp-bind"><resource>taken</resource></bind></iq>`), &out}
	s := xmpptest.NewClientSession(xmpp.Received|xmpp.Secure|xmpp.Authn, rw)
	f := xmpp.BindCustom(func(j jid.JID, res string) (jid.JID, error) {
		return jid.JID{}, stanza.Error{Type: stanza.Cancel, Condition: stanza.Conflict}
	})
	mask, _, err := f.Negotiate(context.Background(), s, nil)
	wire := out.String()
	if (err == nil && mask&xmpp.Ready != 0) || !strings.Contains(wire, `type="error"`) {
		fmt.Printf("REPRODUCED bind: the application refused the resource (conflict) but the feature returned mask=%v err=%v and the reply is %s\n", mask, err, wire)
		t.Fail()
		return
	}
	fmt.Printf("NOT-REPRODUCED bind refused: mask=%v err=%v reply=%s\n", mask, err, wire)
}

// The bind reply carries the id of the request: its unqualified id attribute,
// not an attribute of another namespace that is also called id.
func TestGvcAdapterBindReplyIDPrefixed(t *testing.T) {
	var out bytes.Buffer
	rw := struct {
		io.Reader
		io.Writer
	}{strings.NewReader(`<iq xmlns="jabber:client" xmlns:x="urn:x" x:id="evil" id="b1" type="set"><bind xmlns="urn:ietf:params:xml:ns:xmpp-bind"><resource>r</resource></bind></iq>`), &out}
	s := xmpptest.NewClientSession(xmpp.Received|xmpp.Secure|xmpp.Authn, rw)
	_, _, err := xmpp.BindResource().Negotiate(context.Background(), s, nil)
	wire := out.String()
	if !strings.Contains(wire, `id="b1"`) {
		fmt.Printf("REPRODUCED bind: the request has id=\"b1\" (and x:id=\"evil\" in front of it) but the reply is %s (err=%v)\n", wire, err)
		t.Fail()
		return
	}
	fmt.Printf("NOT-REPRODUCED bind: reply carries the request id: %s\n", wire)
}
