// Replay adapter "bind": the initiator's resource binding request must carry
// the resourcepart of its own address inside <resource/>.
// Injected by overlay as /repo/zz_gvc_adapter_test.go (package xmpp_test).
package xmpp_test

import (
	"bytes"
	"context"
	"fmt"
	"io"
	"strings"
	"testing"

	"mellium.im/xmpp"
	"mellium.im/xmpp/internal/xmpptest"
	"mellium.im/xmpp/jid"
)

func TestGvcAdapterBindResource(t *testing.T) {
	var out bytes.Buffer
	rw := struct {
		io.Reader
		io.Writer
	}{strings.NewReader(``), &out}
	origin := jid.MustParse("me@example.net/myres")
	s, err := xmpp.NewSession(context.Background(), jid.MustParse("example.net"), origin, struct {
		io.Reader
		io.Writer
	}{io.MultiReader(strings.NewReader(`<stream:stream from="example.net" to="me@example.net/myres" id="123" version="1.0" xmlns="jabber:client" xmlns:stream="http://etherx.jabber.org/streams">`), rw), rw}, 0, xmpptest.NopNegotiator(xmpp.Authn, "jabber:client"))
	if err != nil {
		fmt.Printf("NOT-REPRODUCED bind: could not build the session: %v\n", err)
		return
	}
	_, _, _ = xmpp.BindResource().Negotiate(context.Background(), s, nil)
	if !strings.Contains(out.String(), "<resource>myres</resource>") {
		fmt.Printf("REPRODUCED bind: the request does not ask for the resourcepart of the local address: %s\n", out.String())
		t.Fail()
		return
	}
	fmt.Println("NOT-REPRODUCED bind: request carries <resource>myres</resource>")
}
