// Replay adapter "blocklist": a block/unblock IQ whose items lack the jid
// attribute, carry an invalid address, or are character data.
// Injected by overlay as /repo/blocklist/zz_gvc_adapter_test.go.
package blocklist_test

import (
	"encoding/xml"
	"fmt"
	"strings"
	"testing"

	"mellium.im/xmlstream"
	"mellium.im/xmpp/blocklist"
	"mellium.im/xmpp/stanza"
)

type rw struct {
	xml.TokenReader
	xmlstream.Encoder
}

func TestGvcAdapterBlocklist(t *testing.T) {
	for _, payload := range []string{
		`<block xmlns='urn:xmpp:blocking'><item/></block>`,
		`<block xmlns='urn:xmpp:blocking'><item jid='@'/></block>`,
		`<unblock xmlns='urn:xmpp:blocking'>text<item jid='a@example.net'/></unblock>`,
	} {
		payload := payload
		func() {
			defer func() {
				if r := recover(); r != nil {
					fmt.Printf("REPRODUCED blocklist handler on %s: panic: %v\n", payload, r)
					t.Fail()
				}
			}()
			d := xml.NewDecoder(strings.NewReader(payload))
			tok, _ := d.Token()
			start := tok.(xml.StartElement)
			var out strings.Builder
			e := xml.NewEncoder(&out)
			hh := blocklist.Handler{}
			_ = hh.HandleIQ(stanza.IQ{Type: stanza.SetIQ}, rw{TokenReader: xmlstream.Inner(d), Encoder: e}, &start)
		}()
	}
	if !t.Failed() {
		fmt.Println("NOT-REPRODUCED blocklist handler")
	}
}
