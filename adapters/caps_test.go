// Replay adapter "caps": the entity-capabilities hash must not depend on the
// order of the extended-information forms.
// Injected by overlay as /repo/disco/zz_gvc_adapter_test.go (package disco_test).
package disco_test

import (
	"crypto/sha1"
	"fmt"
	"testing"

	"mellium.im/xmpp/disco"
	"mellium.im/xmpp/disco/info"
	"mellium.im/xmpp/form"
)

func TestGvcAdapterCapsFormOrder(t *testing.T) {
	f1 := form.New(form.Hidden("FORM_TYPE", form.Value("urn:example:a")), form.Text("x", form.Value("1")))
	f2 := form.New(form.Hidden("FORM_TYPE", form.Value("urn:example:b")), form.Text("y", form.Value("2")))
	a := disco.Info{Identity: []info.Identity{{Category: "client", Type: "pc"}}, Features: []info.Feature{{Var: "f"}}, Form: []form.Data{*f1, *f2}}
	b := disco.Info{Identity: []info.Identity{{Category: "client", Type: "pc"}}, Features: []info.Feature{{Var: "f"}}, Form: []form.Data{*f2, *f1}}
	ha, hb := a.Hash(sha1.New()), b.Hash(sha1.New())
	if ha != hb {
		fmt.Printf("REPRODUCED caps: hash depends on the order of the extended-information forms: %s vs %s\n", ha, hb)
		t.Fail()
		return
	}
	fmt.Printf("NOT-REPRODUCED caps form order: %s\n", ha)
}
