// Replay adapter "close": transmit entry points after Close, and the order of
// stream error and closing tag on the wire.
// Injected by overlay as /repo/zz_gvc_adapter_test.go (package xmpp_test).
package xmpp_test

import (
	"context"
	"encoding/xml"
	"errors"
	"fmt"
	"io"
	"strings"
	"testing"
	"time"

	"mellium.im/xmlstream"
	"mellium.im/xmpp"
	"mellium.im/xmpp/internal/xmpptest"
	"mellium.im/xmpp/stanza"
	"mellium.im/xmpp/stream"
)

type gvcRW struct {
	io.Reader
	io.Writer
}

// Every transmit entry point called after Close must fail with
// ErrOutputStreamClosed and write nothing.
func TestGvcAdapterSendAfterClose(t *testing.T) {
	out := &strings.Builder{}
	s := xmpptest.NewClientSession(0, gvcRW{strings.NewReader(""), out})
	if err := s.Close(); err != nil {
		fmt.Println("NOT-REPRODUCED close failed:", err)
		return
	}
	closed := out.String()
	bad := ""
	msg := stanza.Message{Type: stanza.ChatMessage}
	calls := map[string]func() error{
		"Send": func() error { return s.Send(context.Background(), msg.Wrap(nil)) },
		"SendElement": func() error {
			return s.SendElement(context.Background(), xmlstream.ReaderFunc(func() (xml.Token, error) { return nil, io.EOF }), xml.StartElement{Name: xml.Name{Local: "message"}})
		},
		"Encode": func() error { return s.Encode(context.Background(), msg) },
		"EncodeElement": func() error {
			return s.EncodeElement(context.Background(), msg, xml.StartElement{Name: xml.Name{Local: "message"}})
		},
		"EncodeMessage": func() error {
			ctx, cancel := context.WithTimeout(context.Background(), 200*time.Millisecond)
			defer cancel()
			_, err := s.EncodeMessage(ctx, msg)
			return err
		},
		"TokenWriter": func() error {
			w := s.TokenWriter()
			defer w.Close()
			if err := w.EncodeToken(xml.StartElement{Name: xml.Name{Local: "message"}}); err != nil {
				return err
			}
			return w.Flush()
		},
	}
	for name, f := range calls {
		err := f()
		if !errors.Is(err, xmpp.ErrOutputStreamClosed) || out.String() != closed {
			bad += fmt.Sprintf(" %s(err=%v wrote=%q)", name, err, strings.TrimPrefix(out.String(), closed))
			closed = out.String()
		}
	}
	if bad != "" {
		fmt.Println("REPRODUCED transmit after Close does not fail with ErrOutputStreamClosed or writes to the connection:" + bad)
		t.Fail()
		return
	}
	fmt.Println("NOT-REPRODUCED send after close: every entry point failed with ErrOutputStreamClosed and wrote nothing")
}

// A handler returns a stream error: the error element must be on the wire
// before the closing tag.
func TestGvcAdapterStreamErrorBeforeClose(t *testing.T) {
	out := &strings.Builder{}
	s := xmpptest.NewClientSession(0, gvcRW{strings.NewReader(`<message xmlns="jabber:client"/>`), out})
	err := s.Serve(xmpp.HandlerFunc(func(t xmlstream.TokenReadEncoder, start *xml.StartElement) error {
		return stream.PolicyViolation
	}))
	w := out.String()
	ie, ic := strings.Index(w, "policy-violation"), strings.Index(w, "</stream:stream>")
	if ie < 0 || ic < 0 || ie > ic {
		fmt.Printf("REPRODUCED Serve: stream error not on the wire before the closing tag: wire=%q err=%v\n", w, err)
		t.Fail()
		return
	}
	fmt.Printf("NOT-REPRODUCED stream error precedes close: %q\n", w)
}
