// Replay adapter "discopage": a disco#items reply that announces a further
// page (RSM <last/>) followed by an error reply to the request for that page.
// Injected by overlay as /repo/zz_gvc_adapter_test.go (package xmpp_test).
package xmpp_test

import (
	"context"
	"encoding/xml"
	"fmt"
	"testing"
	"time"

	"mellium.im/xmlstream"
	"mellium.im/xmpp/disco"
	"mellium.im/xmpp/disco/items"
	"mellium.im/xmpp/internal/xmpptest"
	"mellium.im/xmpp/jid"
	"mellium.im/xmpp/stanza"
)

func TestGvcAdapterDiscoPageError(t *testing.T) {
	n := 0
	cs := xmpptest.NewClientServer(xmpptest.ServerHandlerFunc(func(t xmlstream.TokenReadEncoder, start *xml.StartElement) error {
		if start.Name.Local != "iq" {
			return nil
		}
		iq, err := stanza.NewIQ(*start)
		if err != nil || iq.Type != stanza.GetIQ {
			return err
		}
		n++
		if n == 1 {
			payload := xmlstream.Wrap(
				xmlstream.MultiReader(
					xmlstream.Wrap(nil, xml.StartElement{Name: xml.Name{Local: "item"}, Attr: []xml.Attr{{Name: xml.Name{Local: "jid"}, Value: "a.example.net"}}}),
					xmlstream.Wrap(
						xmlstream.Wrap(xmlstream.Token(xml.CharData("x")), xml.StartElement{Name: xml.Name{Local: "last"}}),
						xml.StartElement{Name: xml.Name{Space: "http://jabber.org/protocol/rsm", Local: "set"}},
					),
				),
				xml.StartElement{Name: xml.Name{Space: disco.NSItems, Local: "query"}},
			)
			_, err = xmlstream.Copy(t, iq.Result(payload))
			return err
		}
		_, err = xmlstream.Copy(t, iq.Error(stanza.Error{Type: stanza.Cancel, Condition: stanza.ItemNotFound}))
		return err
	}))
	ctx, cancel := context.WithTimeout(context.Background(), 5*time.Second)
	defer cancel()
	defer func() {
		if r := recover(); r != nil {
			fmt.Printf("REPRODUCED disco item paging with an error reply for the next page: panic: %v\n", r)
			t.Fail()
			return
		}
		fmt.Println("NOT-REPRODUCED disco item paging with an error reply for the next page")
	}()
	iter := disco.FetchItems(ctx, items.Item{JID: jid.MustParse("example.net")}, cs.Client)
	for iter.Next() {
	}
	_ = iter.Err()
}
