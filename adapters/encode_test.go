// Replay adapter "encode": EncodeElement must use the supplied start element
// as the outermost tag.
// Injected by overlay as /repo/zz_gvc_adapter_test.go (package xmpp_test).
package xmpp_test

import (
	"context"
	"encoding/xml"
	"fmt"
	"io"
	"strings"
	"testing"

	"mellium.im/xmlstream"
	"mellium.im/xmpp/internal/xmpptest"
	"mellium.im/xmpp/stanza"
)

func TestGvcAdapterEncodeElementStart(t *testing.T) {
	type payload struct {
		XMLName xml.Name `xml:"foo"`
		A       string   `xml:"a,attr"`
		Body    string   `xml:"body"`
	}
	start := xml.StartElement{Name: xml.Name{Local: "message"}, Attr: []xml.Attr{{Name: xml.Name{Local: "type"}, Value: "chat"}}}
	bad := ""
	for name, v := range map[string]interface{}{
		"struct":    payload{A: "1", Body: "hi"},
		"marshaler": stanza.Presence{Type: stanza.SubscribePresence},
	} {
		out := &strings.Builder{}
		s := xmpptest.NewClientSession(0, struct {
			io.Reader
			io.Writer
		}{strings.NewReader(""), out})
		err := s.EncodeElement(context.Background(), v, start)
		w := out.String()
		if err != nil || !strings.HasPrefix(w, "<message ") || !strings.Contains(w, `type="chat"`) || !strings.HasSuffix(w, "</message>") {
			bad += fmt.Sprintf(" %s: err=%v wire=%q;", name, err, w)
		}
	}
	if bad != "" {
		fmt.Println("REPRODUCED EncodeElement: the supplied start element is not the outermost tag on the wire:" + bad)
		t.Fail()
		return
	}
	fmt.Println("NOT-REPRODUCED EncodeElement uses the supplied start element")
}

type gvcWriterTo struct{}

func (gvcWriterTo) WriteXML(w xmlstream.TokenWriter) (int, error) {
	start := xml.StartElement{Name: xml.Name{Local: "message"}}
	if err := w.EncodeToken(start); err != nil {
		return 0, err
	}
	return 2, w.EncodeToken(start.End())
}

// Encode of a value that writes itself (xmlstream.WriterTo): after a nil
// return the element must be on the wire (flushed).
func TestGvcAdapterEncodeWriterToFlushed(t *testing.T) {
	out := &strings.Builder{}
	s := xmpptest.NewClientSession(0, struct {
		io.Reader
		io.Writer
	}{strings.NewReader(""), out})
	err := s.Encode(context.Background(), gvcWriterTo{})
	if err == nil && !strings.Contains(out.String(), "<message") {
		fmt.Printf("REPRODUCED Encode: nil error but the element written by a WriterTo value is not on the wire (not flushed): wire=%q\n", out.String())
		t.Fail()
		return
	}
	fmt.Printf("NOT-REPRODUCED Encode WriterTo: err=%v wire=%q\n", err, out.String())
}

// A stanza that only has an attribute of another namespace called id (x:id)
// still gets a real id attribute.
func TestGvcAdapterEncodePrefixedIDDoesNotCount(t *testing.T) {
	var out strings.Builder
	s := xmpptest.NewClientSession(0, struct {
		io.Reader
		io.Writer
	}{strings.NewReader(""), &out})
	start := xml.StartElement{Name: xml.Name{Local: "message"}, Attr: []xml.Attr{
		{Name: xml.Name{Space: "urn:x", Local: "id"}, Value: "zz"},
		{Name: xml.Name{Local: "to"}, Value: "a@example.net"},
	}}
	empty := xmlstream.ReaderFunc(func() (xml.Token, error) { return nil, io.EOF })
	if err := s.SendElement(context.Background(), empty, start); err != nil {
		fmt.Printf("NOT-REPRODUCED encode: send failed: %v\n", err)
		return
	}
	d := xml.NewDecoder(strings.NewReader(out.String()))
	tok, err := d.Token()
	if err != nil {
		fmt.Printf("NOT-REPRODUCED encode: output does not parse: %v (%q)\n", err, out.String())
		return
	}
	se, _ := tok.(xml.StartElement)
	hasID := false
	for _, a := range se.Attr {
		if a.Name.Space == "" && a.Name.Local == "id" && a.Value != "" {
			hasID = true
		}
	}
	if !hasID {
		fmt.Printf("REPRODUCED encode: a message whose only id-like attribute is x:id (namespace urn:x) went out without an id attribute: %s\n", out.String())
		t.Fail()
		return
	}
	fmt.Println("NOT-REPRODUCED encode: the stanza got its own id attribute")
}
