// Replay adapter "formsubmit": submitting a text-multi value that is empty or
// ends in a line break, then reading the submission's tokens.
// Injected by overlay as /repo/form/zz_gvc_adapter_test.go.
package form_test

import (
	"fmt"
	"testing"

	"mellium.im/xmlstream"
	"mellium.im/xmpp/form"
)

func TestGvcAdapterFormSubmit(t *testing.T) {
	for _, val := range []string{"a\n", "", "a\r\nb\n"} {
		val := val
		func() {
			defer func() {
				if r := recover(); r != nil {
					fmt.Printf("REPRODUCED form submit of text-multi value %q: panic: %v\n", val, r)
					t.Fail()
				}
			}()
			d := form.New(form.TextMulti("x"))
			if _, err := d.Set("x", val); err != nil {
				return
			}
			sub, ok := d.Submit()
			if !ok {
				return
			}
			_, _ = xmlstream.Copy(xmlstream.Discard(), sub)
		}()
	}
	if !t.Failed() {
		fmt.Println("NOT-REPRODUCED form submit of text-multi values")
	}
}
