// Replay adapter "header": the stream header written by internal/stream.Send
// for addresses whose resourcepart contains quotes, ampersands and angle
// brackets must be well-formed XML from which the same values are recovered.
// Injected by overlay as /repo/internal/stream/zz_gvc_adapter_test.go.
package stream_test

import (
	"bytes"
	"context"
	"encoding/xml"
	"fmt"
	"testing"

	intstream "mellium.im/xmpp/internal/stream"
	"mellium.im/xmpp/jid"
	"mellium.im/xmpp/stream"
)

func TestGvcAdapterHeader(t *testing.T) {
	from := jid.MustParse("me@example.net/it's<&")
	to := jid.MustParse("example.net")
	var buf bytes.Buffer
	info := &stream.Info{XMLNS: "jabber:client"}
	err := intstream.Send(struct {
		*bytes.Buffer
	}{&buf}, info, false, stream.DefaultVersion, "en", to.String(), from.String(), "abc'<&")
	if err != nil {
		fmt.Printf("NOT-REPRODUCED header: Send failed: %v\n", err)
		return
	}
	d := xml.NewDecoder(bytes.NewReader(append(buf.Bytes(), []byte("</stream:stream>")...)))
	tok, err := d.Token()
	for err == nil {
		if start, ok := tok.(xml.StartElement); ok {
			var got stream.Info
			if e := got.FromStartElement(start); e != nil || got.From.String() != from.String() || got.ID != "abc'<&" {
				fmt.Printf("REPRODUCED header: values not recovered from %s: from=%q id=%q err=%v\n", buf.String(), got.From, got.ID, e)
				t.Fail()
				return
			}
			fmt.Println("NOT-REPRODUCED header: well-formed and values recovered")
			return
		}
		tok, err = d.Token()
	}
	fmt.Printf("REPRODUCED header: not well-formed XML: %s: %v\n", buf.String(), err)
	t.Fail()
}

// The language of a header written by Send is recovered by Expect.
func TestGvcAdapterHeaderLang(t *testing.T) {
	var buf bytes.Buffer
	info := &stream.Info{XMLNS: "jabber:client"}
	err := intstream.Send(struct {
		*bytes.Buffer
	}{&buf}, info, false, stream.DefaultVersion, "de-CH", "example.net", "me@example.net", "abc")
	if err != nil {
		fmt.Printf("NOT-REPRODUCED header lang: Send failed: %v\n", err)
		return
	}
	var got stream.Info
	d := xml.NewDecoder(bytes.NewReader(buf.Bytes()))
	err = intstream.Expect(context.Background(), &got, d, true, false)
	if err == nil && got.Lang != "de-CH" {
		fmt.Printf("REPRODUCED header: language not recovered from %s: lang=%q\n", buf.String(), got.Lang)
		t.Fail()
		return
	}
	fmt.Printf("NOT-REPRODUCED header lang: lang=%q err=%v\n", got.Lang, err)
}
