// Replay adapter "history-internal": the archive result handler runs on the
// serve loop and must not wait for the application's iterator.
// Injected by overlay as /repo/history/zz_gvc_adapter_test.go (package history).
package history

import (
	"bytes"
	"encoding/xml"
	"fmt"
	"strings"
	"testing"
	"time"

	"mellium.im/xmlstream"
	"mellium.im/xmpp/stanza"
)

func TestGvcAdapterHistoryResultWithoutNext(t *testing.T) {
	h := &Handler{tracked: map[string]*Iter{}}
	h.tracked["q1"] = &Iter{h: h, id: "q1", msgC: make(chan xml.TokenReader)}
	d := xml.NewDecoder(strings.NewReader(`<message xmlns="jabber:client"><result xmlns="urn:xmpp:mam:2" queryid="q1" id="1"><forwarded xmlns="urn:xmpp:forward:0"/></result></message>`))
	done := make(chan struct{})
	go func() {
		defer close(done)
		defer func() { recover() }()
		h.HandleMessage(stanza.Message{}, struct {
			xml.TokenReader
			xmlstream.Encoder
		}{TokenReader: d, Encoder: xml.NewEncoder(&bytes.Buffer{})})
	}()
	select {
	case <-done:
		fmt.Println("NOT-REPRODUCED history: the result handler returned although nobody calls Next")
	case <-time.After(2 * time.Second):
		fmt.Println("REPRODUCED history: a result message for a tracked query whose iterator is not being advanced (the application stopped calling Next without Close) blocks the handler, and with it the serve loop, while holding the table lock")
		t.Fail()
	}
}
