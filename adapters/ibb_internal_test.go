// Replay adapter "ibb-internal": data packets that must be refused leave the
// stream's sequence counter and receive buffer untouched.
// Injected by overlay as /repo/ibb/zz_gvc_adapter_test.go (package ibb).
package ibb

import (
	"bytes"
	"context"
	"encoding/xml"
	"fmt"
	"testing"
	"time"

	"mellium.im/xmlstream"
	"mellium.im/xmpp/jid"
	"mellium.im/xmpp/stanza"
)

type gvcErrResp struct{}

func (gvcErrResp) Error(err stanza.Error) xml.TokenReader {
	return stanza.IQ{Type: stanza.ErrorIQ}.Error(err)
}

type gvcEnc struct{ toks int }

func (e *gvcEnc) EncodeToken(xml.Token) error                          { e.toks++; return nil }
func (e *gvcEnc) Encode(v interface{}) error                           { return nil }
func (e *gvcEnc) EncodeElement(v interface{}, s xml.StartElement) error { return nil }

var _ xmlstream.Encoder = (*gvcEnc)(nil)

func gvcConn(max int) (*Handler, *Conn) {
	h := &Handler{streams: map[string]*Conn{}}
	c := &Conn{handler: h, readBuf: &bytes.Buffer{}, readReady: make(chan struct{}, 1), maxBufSize: max}
	h.streams["sid"] = c
	return h, c
}

// A packet that does not fit the receive buffer is refused (resource
// constraint): the peer will retransmit it with the same sequence number, so
// the counter must not have moved.
func TestGvcAdapterIBBRefusedKeepsSeq(t *testing.T) {
	h, c := gvcConn(4)
	err := handlePayload(h, gvcErrResp{}, dataPayload{Seq: 0, SID: "sid", Data: []byte("QUJDREVGR0g=")}, &gvcEnc{})
	if err == nil && (c.seq != 0 || c.readBuf.Len() != 0) {
		fmt.Printf("REPRODUCED ibb: a packet refused for buffer space moved the stream: seq=%d buffered=%d (want 0, 0)\n", c.seq, c.readBuf.Len())
		t.Fail()
		return
	}
	fmt.Printf("NOT-REPRODUCED ibb refused packet: seq=%d buffered=%d err=%v\n", c.seq, c.readBuf.Len(), err)
}

// A packet whose base64 is corrupt half way is refused with bad-request: no
// part of it may reach the reader and the counter must not move.
func TestGvcAdapterIBBCorruptKeepsBuffer(t *testing.T) {
	h, c := gvcConn(0)
	err := handlePayload(h, gvcErrResp{}, dataPayload{Seq: 0, SID: "sid", Data: []byte("QUJDREVG!!!!")}, &gvcEnc{})
	if err == nil && (c.seq != 0 || c.readBuf.Len() != 0) {
		fmt.Printf("REPRODUCED ibb: an undecodable packet was refused but changed the stream: seq=%d buffered=%q (want 0 and nothing)\n", c.seq, c.readBuf.String())
		t.Fail()
		return
	}
	fmt.Printf("NOT-REPRODUCED ibb corrupt packet: seq=%d buffered=%d err=%v\n", c.seq, c.readBuf.Len(), err)
}

// An <open/> request while nobody is in Accept: the handler (serve loop) must
// not wait for the application.
func TestGvcAdapterIBBOpenWithoutAccept(t *testing.T) {
	h := &Handler{streams: map[string]*Conn{}, l: map[string]*Listener{}}
	h.l[""] = &Listener{h: h, c: make(chan *Conn)}
	done := make(chan struct{})
	go func() {
		defer close(done)
		defer func() { recover() }()
		iq := openIQ{}
		iq.Open.SID = "s1"
		iq.Open.BlockSize = 4096
		handleOpen(h, iq, &gvcEnc{})
	}()
	select {
	case <-done:
		fmt.Println("NOT-REPRODUCED ibb open: the handler returned without an Accept pending")
	case <-time.After(2 * time.Second):
		fmt.Println("REPRODUCED ibb: an <open/> request with a listener registered but no Accept call pending blocks the handler (and the serve loop) until the application accepts; a peer can stall the session with two opens")
		t.Fail()
	}
}

// An <open/> request matching an Expect call whose context has ended: the
// stale entry is still in the table and the handler waits on it forever.
func TestGvcAdapterIBBOpenAfterExpectCancelled(t *testing.T) {
	h := &Handler{streams: map[string]*Conn{}, l: map[string]*Listener{}}
	l := &Listener{h: h, c: make(chan *Conn, 1)}
	h.l[""] = l
	ctx, cancel := context.WithCancel(context.Background())
	cancel()
	l.Expect(ctx, jid.JID{}, "s1")
	done := make(chan struct{})
	go func() {
		defer close(done)
		defer func() { recover() }()
		iq := openIQ{}
		iq.Open.SID = "s1"
		iq.Open.BlockSize = 4096
		handleOpen(h, iq, &gvcEnc{})
	}()
	select {
	case <-done:
		fmt.Println("NOT-REPRODUCED ibb open after a cancelled Expect: the handler returned")
	case <-time.After(2 * time.Second):
		fmt.Println("REPRODUCED ibb: Expect left its entry behind when its context ended; a later matching <open/> blocks the handler (and the serve loop) forever")
		t.Fail()
	}
}
