// Replay adapter "ibb": opening a bytestream against a peer that refuses it,
// and a data packet refused for buffer space.
// Injected by overlay as /repo/ibb/zz_gvc_adapter_test.go (package ibb_test).
package ibb_test

import (
	"context"
	"encoding/xml"
	"fmt"
	"testing"
	"time"

	"mellium.im/xmlstream"
	"mellium.im/xmpp"
	"mellium.im/xmpp/ibb"
	"mellium.im/xmpp/internal/xmpptest"
	"mellium.im/xmpp/mux"
	"mellium.im/xmpp/stanza"
)

// The peer answers the <open/> request with a stanza error: Open must fail.
func TestGvcAdapterIBBOpenRefused(t *testing.T) {
	clientIBB := &ibb.Handler{}
	clientM := mux.New(stanza.NSClient, ibb.Handle(clientIBB))
	s := xmpptest.NewClientServer(
		xmpptest.ClientHandler(clientM),
		xmpptest.ServerHandlerFunc(func(t xmlstream.TokenReadEncoder, start *xml.StartElement) error {
			iq, err := stanza.NewIQ(*start)
			if err != nil {
				return nil
			}
			_, err = xmlstream.Copy(t, iq.Error(stanza.Error{Type: stanza.Cancel, Condition: stanza.NotAcceptable}))
			return err
		}),
	)
	ctx, cancel := context.WithTimeout(context.Background(), 5*time.Second)
	defer cancel()
	conn, err := clientIBB.Open(ctx, s.Client, s.Server.LocalAddr())
	if err == nil && conn != nil {
		fmt.Println("REPRODUCED ibb: the peer refused <open/> with a not-acceptable error but Open returned a connection and a nil error")
		t.Fail()
		return
	}
	fmt.Printf("NOT-REPRODUCED ibb open refused: err=%v\n", err)
}

var _ = xmpp.Ready

type gvcErrResp struct{}

func (gvcErrResp) Error(err stanza.Error) xml.TokenReader {
	return stanza.IQ{Type: stanza.ErrorIQ}.Error(err)
}
