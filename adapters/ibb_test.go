// Replay adapter "ibb": opening a bytestream against a peer that refuses it,
// and a data packet refused for buffer space.
// Injected by overlay as /repo/ibb/zz_gvc_adapter_test.go (package ibb_test).
package ibb_test

import (
	"context"
	"encoding/xml"
	"fmt"
	"testing"
	"time"

	"mellium.im/xmlstream"
	"mellium.im/xmpp"
	"mellium.im/xmpp/ibb"
	"mellium.im/xmpp/internal/xmpptest"
	"mellium.im/xmpp/mux"
	"mellium.im/xmpp/stanza"
)

// The peer answers the <open/> request with a stanza error: Open must fail.
func TestGvcAdapterIBBOpenRefused(t *testing.T) {
	clientIBB := &ibb.Handler{}
	clientM := mux.New(stanza.NSClient, ibb.Handle(clientIBB))
	s := xmpptest.NewClientServer(
		xmpptest.ClientHandler(clientM),
		xmpptest.ServerHandlerFunc(func(t xmlstream.TokenReadEncoder, start *xml.StartElement) error {
			iq, err := stanza.NewIQ(*start)
			if err != nil {
				return nil
			}
			_, err = xmlstream.Copy(t, iq.Error(stanza.Error{Type: stanza.Cancel, Condition: stanza.NotAcceptable}))
			return err
		}),
	)
	ctx, cancel := context.WithTimeout(context.Background(), 5*time.Second)
	defer cancel()
	conn, err := clientIBB.Open(ctx, s.Client, s.Server.LocalAddr())
	if err == nil && conn != nil {
		fmt.Println("REPRODUCED ibb: the peer refused <open/> with a not-acceptable error but Open returned a connection and a nil error")
		t.Fail()
		return
	}
	fmt.Printf("NOT-REPRODUCED ibb open refused: err=%v\n", err)
}

var _ = xmpp.Ready

type gvcErrResp struct{}

func (gvcErrResp) Error(err stanza.Error) xml.TokenReader {
	return stanza.IQ{Type: stanza.ErrorIQ}.Error(err)
}

// A data packet for a session that this side has closed must be refused with
// item-not-found (and must not reach the closed connection).
func TestGvcAdapterIBBDataAfterClose(t *testing.T) {
	clientIBB := &ibb.Handler{}
	serverIBB := &ibb.Handler{}
	s := xmpptest.NewClientServer(
		xmpptest.ClientHandler(mux.New(stanza.NSServer, ibb.Handle(clientIBB))),
		xmpptest.ServerHandler(mux.New(stanza.NSClient, ibb.Handle(serverIBB))),
	)
	ln := serverIBB.Listen(s.Server)
	go func() {
		for {
			if _, err := ln.Accept(); err != nil {
				return
			}
		}
	}()
	ctx, cancel := context.WithTimeout(context.Background(), 5*time.Second)
	defer cancel()
	conn, err := clientIBB.Open(ctx, s.Client, s.Server.LocalAddr())
	if err != nil {
		fmt.Printf("NOT-REPRODUCED ibb data after close: open failed: %v\n", err)
		return
	}
	sid := conn.SID()
	if err = conn.Close(); err != nil {
		fmt.Printf("NOT-REPRODUCED ibb data after close: close failed: %v\n", err)
		return
	}
	payload := xmlstream.Wrap(
		xmlstream.Token(xml.CharData("QUJD")),
		xml.StartElement{Name: xml.Name{Space: ibb.NS, Local: "data"}, Attr: []xml.Attr{
			{Name: xml.Name{Local: "seq"}, Value: "0"}, {Name: xml.Name{Local: "sid"}, Value: sid},
		}},
	)
	err = s.Server.UnmarshalIQElement(ctx, payload, stanza.IQ{Type: stanza.SetIQ, To: s.Client.LocalAddr()}, nil)
	if err == nil {
		fmt.Println("REPRODUCED ibb: a data packet for a session closed by this side was accepted (result reply) instead of refused with item-not-found")
		t.Fail()
		return
	}
	fmt.Printf("NOT-REPRODUCED ibb data after close: refused with %v\n", err)
}
