// Replay adapter "iqreply": a served client session whose peer answers every
// get/set IQ with a result IQ whose payload begins with character data instead
// of a start element. Drives the real UnmarshalIQ / commands / history code.
// Injected by overlay as /repo/zz_gvc_adapter_test.go (package xmpp_test).
package xmpp_test

import (
	"context"
	"encoding/xml"
	"fmt"
	"testing"
	"time"

	"mellium.im/xmlstream"
	"mellium.im/xmpp"
	"mellium.im/xmpp/commands"
	"mellium.im/xmpp/history"
	"mellium.im/xmpp/internal/xmpptest"
	"mellium.im/xmpp/jid"
	"mellium.im/xmpp/stanza"
)

// textReply answers every get/set IQ with <iq type='result'>text</iq>.
func textReply(t xmlstream.TokenReadEncoder, start *xml.StartElement) error {
	if start.Name.Local != "iq" {
		return nil
	}
	iq, err := stanza.NewIQ(*start)
	if err != nil || (iq.Type != stanza.GetIQ && iq.Type != stanza.SetIQ) {
		return err
	}
	_, err = xmlstream.Copy(t, iq.Result(xmlstream.Token(xml.CharData("just text"))))
	return err
}

func guard(t *testing.T, what string, f func()) (panicked bool) {
	defer func() {
		if r := recover(); r != nil {
			fmt.Printf("REPRODUCED %s: panic: %v\n", what, r)
			t.Fail()
			panicked = true
			return
		}
		fmt.Printf("NOT-REPRODUCED %s\n", what)
	}()
	f()
	return false
}

func TestGvcAdapterUnmarshalIQ(t *testing.T) {
	cs := xmpptest.NewClientServer(xmpptest.ServerHandlerFunc(textReply))
	ctx, cancel := context.WithTimeout(context.Background(), 5*time.Second)
	defer cancel()
	p := guard(t, "unmarshalIQ with a text payload", func() {
		var v struct {
			XMLName xml.Name `xml:"q"`
		}
		_ = cs.Client.UnmarshalIQ(ctx, stanza.IQ{Type: stanza.GetIQ}.Wrap(xmlstream.Wrap(nil, xml.StartElement{Name: xml.Name{Local: "q", Space: "urn:example"}})), &v)
	})
	_ = p // the session is left to the process exit: closing after an early error return can block on the peer
}

func TestGvcAdapterCommands(t *testing.T) {
	cs := xmpptest.NewClientServer(xmpptest.ServerHandlerFunc(textReply))
	ctx, cancel := context.WithTimeout(context.Background(), 5*time.Second)
	defer cancel()
	p := guard(t, "commands.Execute with a text payload in the reply", func() {
		_, tr, err := commands.Command{JID: jid.MustParse("a@example.net"), Node: "n"}.Execute(ctx, nil, cs.Client)
		if err == nil && tr != nil {
			tr.Close()
		}
	})
	_ = p // the session is left to the process exit: closing after an early error return can block on the peer
}

// A failed ExecuteIQ must release the response it obtained: otherwise the serve
// loop stays parked on it and no later reply is ever delivered.
func TestGvcAdapterCommandsFailedExecuteReleasesResponse(t *testing.T) {
	cs := xmpptest.NewClientServer(xmpptest.ServerHandlerFunc(textReply))
	ctx, cancel := context.WithTimeout(context.Background(), 5*time.Second)
	defer cancel()
	_, tr, err := commands.Command{JID: jid.MustParse("a@example.net"), Node: "n"}.Execute(ctx, nil, cs.Client)
	if err == nil {
		if tr != nil {
			tr.Close()
		}
		fmt.Println("NOT-REPRODUCED Execute did not fail on a text payload")
		return
	}
	ctx2, cancel2 := context.WithTimeout(context.Background(), 2*time.Second)
	defer cancel2()
	resp, err := cs.Client.SendIQ(ctx2, stanza.IQ{Type: stanza.GetIQ}.Wrap(xmlstream.Wrap(nil, xml.StartElement{Name: xml.Name{Local: "q", Space: "urn:example"}})))
	if err != nil {
		fmt.Printf("REPRODUCED after a failed Execute the next IQ gets no reply (serve loop parked on the unreleased response): %v\n", err)
		t.Fail()
		return
	}
	resp.Close()
	fmt.Println("NOT-REPRODUCED the response of the failed Execute was released")
}

func TestGvcAdapterHistory(t *testing.T) {
	h := history.NewHandler(nil)
	guard(t, "history.HandleMessage with character data as first child", func() {
		r := &xmpptest.Tokens{
			xml.StartElement{Name: xml.Name{Local: "message", Space: stanza.NSClient}},
			xml.CharData("text"),
			xml.EndElement{Name: xml.Name{Local: "message", Space: stanza.NSClient}},
		}
		_ = h.HandleMessage(stanza.Message{}, struct {
			xml.TokenReader
			xmlstream.Encoder
		}{TokenReader: r})
	})
}

var _ = xmpp.Session{}
