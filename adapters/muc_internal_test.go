// Replay adapter "muc-internal": Channel.Joined must look the channel up under
// the key it was registered with.
// Injected by overlay as /repo/muc/zz_gvc_adapter_test.go (package muc).
package muc

import (
	"fmt"
	"testing"

	"mellium.im/xmpp/jid"
)

func TestGvcAdapterMUCJoinedKey(t *testing.T) {
	room := jid.MustParse("room@conference.example.net/nick")
	c := &Client{managed: map[string]*Channel{}}
	ch := &Channel{addr: room, client: c}
	// what JoinPresence does when it registers the channel
	c.managed[room.String()] = ch
	if !ch.Joined() {
		fmt.Printf("REPRODUCED muc: a channel registered under %q is reported as not joined (lookup under %q)\n", room.String(), room.Bare().String())
		t.Fail()
		return
	}
	fmt.Println("NOT-REPRODUCED muc Joined: registered channel is reported joined")
}
