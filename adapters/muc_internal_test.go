// Replay adapter "muc-internal": Channel.Joined must look the channel up under
// the key it was registered with.
// Injected by overlay as /repo/muc/zz_gvc_adapter_test.go (package muc).
package muc

import (
	"bytes"
	"context"
	"encoding/xml"
	"fmt"
	"io"
	"strings"
	"testing"
	"time"

	"mellium.im/xmlstream"
	"mellium.im/xmpp/internal/xmpptest"
	"mellium.im/xmpp/jid"
	"mellium.im/xmpp/stanza"
)

func TestGvcAdapterMUCJoinedKey(t *testing.T) {
	room := jid.MustParse("room@conference.example.net/nick")
	c := &Client{managed: map[string]*Channel{}}
	ch := &Channel{addr: room, client: c}
	// what JoinPresence does when it registers the channel
	c.managed[room.String()] = ch
	if !ch.Joined() {
		fmt.Printf("REPRODUCED muc: a channel registered under %q is reported as not joined (lookup under %q)\n", room.String(), room.Bare().String())
		t.Fail()
		return
	}
	fmt.Println("NOT-REPRODUCED muc Joined: registered channel is reported joined")
}

// A join that did not succeed (here: its context has ended and the room never
// answered) must not leave the room registered: presences that arrive later
// from that occupant address belong to a room that was never joined.
func TestGvcAdapterMUCFailedJoinStaysRegistered(t *testing.T) {
	room := jid.MustParse("room@conference.example.net/nick")
	var buf bytes.Buffer
	s := xmpptest.NewClientSession(0, struct {
		io.Reader
		io.Writer
	}{strings.NewReader(""), &buf})
	calls := 0
	c := &Client{HandleUserPresence: func(stanza.Presence, Item) { calls++ }}
	ctx, cancel := context.WithTimeout(context.Background(), 100*time.Millisecond)
	defer cancel()
	_, err := c.Join(ctx, room, s)
	if err == nil {
		fmt.Println("NOT-REPRODUCED muc: the join unexpectedly succeeded")
		return
	}
	c.managedM.Lock()
	_, still := c.managed[room.String()]
	c.managedM.Unlock()
	d := xml.NewDecoder(strings.NewReader(`<presence xmlns="jabber:client" from="room@conference.example.net/nick"><x xmlns="http://jabber.org/protocol/muc#user"><item affiliation="member" role="participant"/></x></presence>`))
	tok, _ := d.Token()
	start := tok.(xml.StartElement)
	p, _ := stanza.NewPresence(start)
	_ = c.HandlePresence(p, struct {
		xml.TokenReader
		xmlstream.Encoder
	}{TokenReader: xmlstream.MultiReader(xmlstream.Token(start), xmlstream.Inner(d), xmlstream.Token(start.End())), Encoder: xml.NewEncoder(&buf)})
	if still || calls > 0 {
		fmt.Printf("REPRODUCED muc: Join returned %v but the room is still registered (%v) and a later presence from the occupant address was handled as if the room were joined (HandleUserPresence calls: %d)\n", err, still, calls)
		t.Fail()
		return
	}
	fmt.Println("NOT-REPRODUCED muc: a failed join leaves nothing registered")
}
