// Replay adapter "negotiate": feature selection driven with instrumented
// StreamFeature values and a scripted peer on an in-memory connection.
// Injected by overlay as /repo/zz_gvc_adapter_test.go (package xmpp_test).
package xmpp_test

import (
	"context"
	"crypto/tls"
	"encoding/xml"
	"errors"
	"fmt"
	"io"
	"net"
	"strings"
	"testing"
	"time"

	"mellium.im/sasl"
	"mellium.im/xmlstream"
	"mellium.im/xmpp"
	"mellium.im/xmpp/internal/xmpptest"
	"mellium.im/xmpp/jid"
)

type gvcCall struct {
	name  string
	state xmpp.SessionState
}

func gvcFeature(local string, nec, proh, mask xmpp.SessionState, req bool, fail error, calls *[]gvcCall) xmpp.StreamFeature {
	return xmpp.StreamFeature{
		Name:       xml.Name{Space: "urn:example:" + local, Local: local},
		Necessary:  nec,
		Prohibited: proh,
		List: func(ctx context.Context, e xmlstream.TokenWriter, start xml.StartElement) (bool, error) {
			if err := e.EncodeToken(start); err != nil {
				return req, err
			}
			return req, e.EncodeToken(start.End())
		},
		Parse: func(ctx context.Context, d *xml.Decoder, start *xml.StartElement) (bool, interface{}, error) {
			return req, nil, d.Skip()
		},
		Negotiate: func(ctx context.Context, s *xmpp.Session, data interface{}) (xmpp.SessionState, io.ReadWriter, error) {
			*calls = append(*calls, gvcCall{local, s.State()})
			return mask, nil, fail
		},
	}
}

const gvcHeader = `<stream:stream id='1' version='1.0' xml:lang='en' xmlns:stream='http://etherx.jabber.org/streams' xmlns='jabber:client' from='example.net'>`

func gvcClient(in string, state xmpp.SessionState, features ...xmpp.StreamFeature) (*xmpp.Session, error, *strings.Builder) {
	out := &strings.Builder{}
	rw := struct {
		io.Reader
		io.Writer
	}{strings.NewReader(in), out}
	s, err := xmpp.NewSession(context.Background(), jid.MustParse("example.net"), jid.MustParse("me@example.net"), rw, state,
		xmpp.NewNegotiator(func(*xmpp.Session, *xmpp.StreamConfig) xmpp.StreamConfig {
			return xmpp.StreamConfig{Features: features}
		}))
	return s, err, out
}

// Prerequisite drift inside one round: voluntary feature "a" adds Authn,
// cached voluntary feature "b" prohibits Authn. Map order is random, so the
// transcript is repeated.
func TestGvcAdapterPrereqDrift(t *testing.T) {
	for i := 0; i < 200; i++ {
		var calls []gvcCall
		a := gvcFeature("a", 0, 0, xmpp.Authn, false, nil, &calls)
		b := gvcFeature("b", 0, xmpp.Authn, 0, false, nil, &calls)
		gvcClient(gvcHeader+`<stream:features><a xmlns='urn:example:a'/><b xmlns='urn:example:b'/></stream:features>`, 0, a, b)
		for _, c := range calls {
			if c.name == "b" && c.state&xmpp.Authn != 0 {
				fmt.Printf("REPRODUCED negotiateFeatures: feature prohibiting Authn negotiated at state %v (attempt %d, calls %v)\n", c.state, i, calls)
				t.Fail()
				return
			}
		}
	}
	fmt.Println("NOT-REPRODUCED prerequisite drift: no feature ran while its prerequisites were violated in 200 runs")
}

// A failing voluntary feature followed by another voluntary feature (or by
// nothing): the error must be reported by NewSession.
func TestGvcAdapterSwallowedStepError(t *testing.T) {
	boom := errors.New("gvc: step failed")
	for i := 0; i < 200; i++ {
		var calls []gvcCall
		a := gvcFeature("a", 0, 0, 0, false, boom, &calls)
		b := gvcFeature("b", 0, 0, 0, false, nil, &calls)
		s, err, _ := gvcClient(gvcHeader+`<stream:features><a xmlns='urn:example:a'/><b xmlns='urn:example:b'/></stream:features>`, 0, a, b)
		failed := false
		for _, c := range calls {
			if c.name == "a" {
				failed = true
			}
		}
		if failed && err == nil {
			fmt.Printf("REPRODUCED negotiateFeatures: voluntary feature a returned an error but NewSession returned nil (state %v, calls %v)\n", s.State(), calls)
			t.Fail()
			return
		}
	}
	fmt.Println("NOT-REPRODUCED swallowed step error: every failing step was reported in 200 runs")
}

// An informational STARTTLS feature (no Negotiate function) configured on the
// client, peer does not advertise STARTTLS: nothing may be run.
func TestGvcAdapterForcedStartTLSNilNegotiate(t *testing.T) {
	defer func() {
		if r := recover(); r != nil {
			fmt.Printf("REPRODUCED negotiateFeatures: forced STARTTLS selected a feature without Negotiate function: panic: %v\n", r)
			t.Fail()
		}
	}()
	f := xmpp.StreamFeature{
		Name: xml.Name{Space: "urn:ietf:params:xml:ns:xmpp-tls", Local: "starttls"},
		Parse: func(ctx context.Context, d *xml.Decoder, start *xml.StartElement) (bool, interface{}, error) {
			return true, nil, d.Skip()
		},
	}
	_, err, _ := gvcClient(gvcHeader+`<stream:features><other xmlns='urn:example:o'/></stream:features>`, 0, f)
	fmt.Printf("NOT-REPRODUCED forced STARTTLS with informational feature: err=%v\n", err)
}

// Forced STARTTLS with the stream tee on: the peer advertises nothing, the
// client is configured with STARTTLS and a TeeOut writer. The outcome must be
// the same as without the tee: <starttls/> is requested (and the scripted
// peer's silence makes negotiation fail); the session never becomes ready in
// clear text.
func TestGvcAdapterTeeForcedStartTLS(t *testing.T) {
	run := func(tee bool) (ready bool, wire string, err error) {
		out := &strings.Builder{}
		rw := struct {
			io.Reader
			io.Writer
		}{strings.NewReader(gvcHeader + `<stream:features/>` + gvcHeader + `<stream:features/>`), out}
		cfg := xmpp.StreamConfig{Features: []xmpp.StreamFeature{xmpp.StartTLS(nil)}}
		if tee {
			cfg.TeeOut = io.Discard
		}
		s, err := xmpp.NewSession(context.Background(), jid.MustParse("example.net"), jid.MustParse("me@example.net"), rw, 0,
			xmpp.NewNegotiator(func(*xmpp.Session, *xmpp.StreamConfig) xmpp.StreamConfig { return cfg }))
		return err == nil && s.State()&xmpp.Ready != 0 && s.State()&xmpp.Secure == 0, out.String(), err
	}
	readyPlain, wirePlain, errPlain := run(false)
	readyTee, wireTee, errTee := run(true)
	if readyTee || readyPlain {
		fmt.Printf("REPRODUCED negotiator: client configured with STARTTLS is ready in clear text (tee=%v plain=%v); wire with tee %q, without %q, errors %v / %v\n", readyTee, readyPlain, wireTee, wirePlain, errTee, errPlain)
		t.Fail()
		return
	}
	if strings.Contains(wirePlain, "<starttls") != strings.Contains(wireTee, "<starttls") {
		fmt.Printf("REPRODUCED negotiator: STARTTLS request differs with tee: with %q without %q\n", wireTee, wirePlain)
		t.Fail()
		return
	}
	fmt.Printf("NOT-REPRODUCED tee: same outcome with and without tee (errors %v / %v)\n", errTee, errPlain)
}

// One StartTLS(nil) feature value reused for two sessions with different
// local domains: the TLS handshake of each session must name that session's
// own domain. Also: a failed write of <starttls/> must be reported.
func TestGvcAdapterStartTLSReuse(t *testing.T) {
	feature := xmpp.StartTLS(nil)
	sni := func(domain string) string {
		c1, c2 := net.Pipe()
		got := make(chan string, 1)
		go func() {
			defer c2.Close()
			buf := make([]byte, 4096)
			// client stream header
			for !strings.Contains(readUntil(c2, buf, ">"), "<stream:stream") {
			}
			fmt.Fprintf(c2, `<stream:stream id='1' version='1.0' xml:lang='en' xmlns:stream='http://etherx.jabber.org/streams' xmlns='jabber:client' from='%s'><stream:features><starttls xmlns='urn:ietf:params:xml:ns:xmpp-tls'><required/></starttls></stream:features>`, domain)
			readUntil(c2, buf, "/>")
			fmt.Fprint(c2, `<proceed xmlns='urn:ietf:params:xml:ns:xmpp-tls'/>`)
			srv := tls.Server(c2, &tls.Config{GetConfigForClient: func(h *tls.ClientHelloInfo) (*tls.Config, error) {
				got <- h.ServerName
				return nil, errors.New("gvc: stop after ClientHello")
			}})
			srv.Handshake()
		}()
		ctx, cancel := context.WithTimeout(context.Background(), 5*time.Second)
		defer cancel()
		go func() {
			xmpp.NewSession(ctx, jid.MustParse(domain), jid.MustParse("me@"+domain), c1, 0,
				xmpp.NewNegotiator(func(*xmpp.Session, *xmpp.StreamConfig) xmpp.StreamConfig {
					return xmpp.StreamConfig{Features: []xmpp.StreamFeature{feature}}
				}))
			c1.Close()
		}()
		select {
		case s := <-got:
			return s
		case <-ctx.Done():
			return "<no ClientHello>"
		}
	}
	first := sni("one.example")
	second := sni("two.example")
	if first != "one.example" || second != "two.example" {
		fmt.Printf("REPRODUCED StartTLS: feature value reused for two sessions names %q then %q in the TLS handshake (want one.example, two.example)\n", first, second)
		t.Fail()
		return
	}
	fmt.Printf("NOT-REPRODUCED StartTLS reuse: handshakes named %q and %q\n", first, second)
}

func readUntil(r io.Reader, buf []byte, end string) string {
	var sb strings.Builder
	for !strings.HasSuffix(sb.String(), end) {
		n, err := r.Read(buf[:1])
		if n > 0 {
			sb.Write(buf[:n])
		}
		if err != nil {
			break
		}
	}
	return sb.String()
}

type gvcFailWriter struct{ io.Reader }

func (gvcFailWriter) Write(p []byte) (int, error) { return 0, errors.New("gvc: write failed") }

// The write of <starttls/> fails: the feature must report an error.
func TestGvcAdapterStartTLSWriteError(t *testing.T) {
	rw := gvcFailWriter{strings.NewReader(`<proceed xmlns='urn:ietf:params:xml:ns:xmpp-tls'/>`)}
	s := xmpptest.NewClientSession(0, rw)
	mask, nrw, err := xmpp.StartTLS(&tls.Config{ServerName: "example.net"}).Negotiate(context.Background(), s, nil)
	if err == nil {
		fmt.Printf("REPRODUCED StartTLS: the write of <starttls/> failed but Negotiate returned mask=%v rw!=nil:%v err=nil\n", mask, nrw != nil)
		t.Fail()
		return
	}
	fmt.Printf("NOT-REPRODUCED StartTLS write error: err=%v\n", err)
}

// A voluntary feature that requires a stream restart (e.g. STARTTLS without
// <required/>) and nothing else advertised: the session must not be reported
// ready before the stream has been restarted with a fresh header.
func TestGvcAdapterReadyWithoutRestart(t *testing.T) {
	var calls []gvcCall
	f := gvcFeature("restart", 0, 0, 0, false, nil, &calls)
	inner := f.Negotiate
	out := &strings.Builder{}
	f.Negotiate = func(ctx context.Context, s *xmpp.Session, data interface{}) (xmpp.SessionState, io.ReadWriter, error) {
		inner(ctx, s, data)
		return 0, struct {
			io.Reader
			io.Writer
		}{strings.NewReader(""), out}, nil
	}
	s, err, first := gvcClient(gvcHeader+`<stream:features><restart xmlns='urn:example:restart'/></stream:features>`, 0, f)
	headers := strings.Count(first.String()+out.String(), "<stream:stream")
	if err == nil && s.State()&xmpp.Ready != 0 && headers < 2 {
		fmt.Printf("REPRODUCED negotiateFeatures: session reported Ready after a restarting voluntary feature without a new stream header (%d header(s) sent, calls %v)\n", headers, calls)
		t.Fail()
		return
	}
	fmt.Printf("NOT-REPRODUCED ready without restart: err=%v headers=%d\n", err, headers)
}

// A features list with the SASL mechanisms followed by another element in
// the SASL namespace: the client must not panic (and still sees the
// mechanisms).
func TestGvcAdapterSASLFeatureDataErased(t *testing.T) {
	defer func() {
		if r := recover(); r != nil {
			fmt.Printf("REPRODUCED negotiation: a second element in the SASL namespace erased the parsed mechanism list and the client panicked: %v\n", r)
			t.Fail()
		}
	}()
	_, err, _ := gvcClient(gvcHeader+`<stream:features><mechanisms xmlns="urn:ietf:params:xml:ns:xmpp-sasl"><mechanism>PLAIN</mechanism></mechanisms><foo xmlns="urn:ietf:params:xml:ns:xmpp-sasl"/></stream:features>`, xmpp.Secure, xmpp.SASL("", "pw", sasl.Plain))
	fmt.Printf("NOT-REPRODUCED SASL feature data: no panic, err=%v\n", err)
}

// Cancellation must reach negotiation I/O that starts after the context has
// ended, not only an operation that happens to be blocked at that instant.
// gvcSlowConn delays the start of every write a little, so that the write
// begins after the watchdog has reacted to the (already ended) context.
type gvcSlowConn struct{ net.Conn }

func (c gvcSlowConn) Write(p []byte) (int, error) {
	time.Sleep(200 * time.Millisecond)
	return c.Conn.Write(p)
}

func TestGvcAdapterCancelledContextStillBlocks(t *testing.T) {
	client, server := net.Pipe()
	defer client.Close()
	defer server.Close()
	// the peer never reads and never writes
	ctx, cancel := context.WithCancel(context.Background())
	cancel()
	done := make(chan error, 1)
	go func() {
		_, err := xmpp.NewSession(ctx, jid.MustParse("example.net"), jid.MustParse("me@example.net"), gvcSlowConn{client}, 0, xmpp.NewNegotiator(func(*xmpp.Session, *xmpp.StreamConfig) xmpp.StreamConfig {
			return xmpp.StreamConfig{}
		}))
		done <- err
	}()
	select {
	case err := <-done:
		if err == nil {
			fmt.Println("REPRODUCED negotiate: session established with a cancelled context and a silent peer")
			t.Fail()
			return
		}
		fmt.Printf("NOT-REPRODUCED negotiate: NewSession with a cancelled context returned %v\n", err)
	case <-time.After(3 * time.Second):
		fmt.Println("REPRODUCED negotiate: NewSession called with an already cancelled context on a net.Pipe whose peer never reads is still blocked in the stream header write after 3s: the write started 200ms after the cancellation, when the watchdog had already set the past deadline and cleared it again")
		t.Fail()
	}
}
