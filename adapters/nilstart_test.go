// Replay adapter "nilstart": payload iterators that meet character data where
// an element is expected (xmlstream.Iter.Current returns a nil start element).
// Injected by overlay as /repo/zz_gvc_adapter_test.go (package xmpp_test).
package xmpp_test

import (
	"encoding/xml"
	"fmt"
	"strings"
	"testing"

	"mellium.im/xmlstream"
	"mellium.im/xmpp/carbons"
	"mellium.im/xmpp/history"
	"mellium.im/xmpp/receipts"
	"mellium.im/xmpp/stanza"
)

func nilStartGuard(t *testing.T, what string, f func()) {
	defer func() {
		if r := recover(); r != nil {
			fmt.Printf("REPRODUCED %s: panic: %v\n", what, r)
			t.Fail()
			return
		}
		fmt.Printf("NOT-REPRODUCED %s\n", what)
	}()
	f()
}

type nilStartRW struct {
	xml.TokenReader
	xmlstream.Encoder
}

func TestGvcAdapterNilStartReceipts(t *testing.T) {
	nilStartGuard(t, "receipts.HandleMessage on <message>x<received/></message>", func() {
		d := xml.NewDecoder(strings.NewReader(`<message xmlns="jabber:client" type="chat">x<received xmlns="urn:xmpp:receipts" id="1"/></message>`))
		h := &receipts.Handler{}
		_ = h.HandleMessage(stanza.Message{}, nilStartRW{TokenReader: d})
	})
}

func TestGvcAdapterNilStartCarbons(t *testing.T) {
	nilStartGuard(t, "carbons handler on <message>x<received/></message>", func() {
		d := xml.NewDecoder(strings.NewReader(`<message xmlns="jabber:client" type="chat">x<received xmlns="urn:xmpp:carbons:2"/></message>`))
		h := carbons.Handler{F: func(stanza.Message, bool, xml.TokenReader) error { return nil }}
		_ = h.HandleMessage(stanza.Message{}, nilStartRW{TokenReader: d})
	})
}

func TestGvcAdapterNilStartUnmarshalError(t *testing.T) {
	nilStartGuard(t, "stanza.UnmarshalError on text before <error/>", func() {
		d := xml.NewDecoder(strings.NewReader(`x<error type="cancel"><item-not-found xmlns="urn:ietf:params:xml:ns:xmpp-stanzas"/></error>`))
		_, _ = stanza.UnmarshalError(d)
	})
}

func TestGvcAdapterHistoryQueryNoForm(t *testing.T) {
	nilStartGuard(t, "history.Query decoding of a query without a data form", func() {
		var q history.Query
		_ = xml.Unmarshal([]byte(`<query xmlns="urn:xmpp:mam:2" queryid="a"/>`), &q)
	})
}
