// Replay adapter "receipts": the receipt handler runs on the serve loop and
// must neither block nor panic, whatever happened to the sender that
// registered the id (failed send, cancelled wait).
// Injected by overlay as /repo/receipts/zz_gvc_adapter_test.go (package receipts_test).
package receipts_test

import (
	"bytes"
	"context"
	"encoding/xml"
	"fmt"
	"testing"
	"time"

	"mellium.im/xmlstream"
	"mellium.im/xmpp/internal/xmpptest"
	"mellium.im/xmpp/receipts"
	"mellium.im/xmpp/stanza"
)

func gvcReceipt(h *receipts.Handler, id string) error {
	msg := stanza.Message{
		XMLName: xml.Name{Space: stanza.NSClient, Local: "message"},
		Type:    stanza.ChatMessage,
	}
	r := msg.Wrap(xmlstream.Wrap(nil, xml.StartElement{
		Name: xml.Name{Local: "received", Space: receipts.NS},
		Attr: []xml.Attr{{Name: xml.Name{Local: "id"}, Value: id}},
	}))
	return h.HandleMessage(msg, struct {
		xml.TokenReader
		xmlstream.Encoder
	}{TokenReader: r, Encoder: xml.NewEncoder(&bytes.Buffer{})})
}

func TestGvcAdapterReceiptAfterFailedSend(t *testing.T) {
	h := &receipts.Handler{}
	s := xmpptest.NewClientSession(0, &bytes.Buffer{})
	// the output stream is closed: the send fails after the id was registered
	if err := s.Close(); err != nil {
		t.Logf("close: %v", err)
	}
	err := h.SendMessageElement(context.Background(), s, nil, stanza.Message{ID: "abc"})
	if err == nil {
		t.Skip("send unexpectedly succeeded")
	}
	done := make(chan string, 1)
	go func() {
		defer func() {
			if r := recover(); r != nil {
				done <- fmt.Sprint("panic: ", r)
			}
		}()
		gvcReceipt(h, "abc")
		done <- ""
	}()
	select {
	case msg := <-done:
		if msg != "" {
			fmt.Printf("REPRODUCED receipts: handler %s\n", msg)
			t.Fail()
			return
		}
		fmt.Println("NOT-REPRODUCED receipts: a receipt for an id whose send failed is handled without blocking")
	case <-time.After(2 * time.Second):
		fmt.Println("REPRODUCED receipts: SendMessageElement failed (output closed) but left its id registered; a later receipt for that id blocks the handler (serve loop) forever")
		t.Fail()
	}
}
