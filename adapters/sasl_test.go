// Replay adapter "sasl": the SASL client feature driven with a scripted
// mechanism and a scripted peer. Scenario: the mechanism finishes (more=false)
// on a <challenge/> and the peer never sends <success/>.
// Injected by overlay as /repo/zz_gvc_adapter_test.go (package xmpp_test).
package xmpp_test

import (
	"context"
	"fmt"
	"io"
	"strings"
	"testing"

	"mellium.im/sasl"
	"mellium.im/xmpp"
	"mellium.im/xmpp/internal/xmpptest"
)

func TestGvcAdapterSASLNoSuccess(t *testing.T) {
	mech := sasl.Mechanism{
		Name: "X-SCRIPTED",
		Start: func(m *sasl.Negotiator) (bool, []byte, interface{}, error) {
			return true, []byte("first"), nil, nil
		},
		Next: func(m *sasl.Negotiator, challenge []byte, data interface{}) (bool, []byte, interface{}, error) {
			return false, []byte("last"), nil, nil
		},
	}
	rw := struct {
		io.Reader
		io.Writer
	}{strings.NewReader(`<challenge xmlns='urn:ietf:params:xml:ns:xmpp-sasl'>Zm9v</challenge>`), io.Discard}
	s := xmpptest.NewClientSession(xmpp.Secure, rw)
	feature := xmpp.SASL("", "password", mech)
	mask, _, err := feature.Negotiate(context.Background(), s, []string{"X-SCRIPTED"})
	if err == nil && mask&xmpp.Authn != 0 {
		fmt.Println("REPRODUCED SASL client: authenticated bit returned although the peer sent only a <challenge/> and never <success/>")
		t.Fail()
		return
	}
	fmt.Printf("NOT-REPRODUCED SASL client without success: mask=%v err=%v\n", mask, err)
}
