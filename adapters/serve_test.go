// Replay adapter "serve": a served session receives one get IQ; the handler
// writes an iq element with the request's id but a type that is not a reply
// type. The session must still add the service-unavailable error.
// Injected by overlay as /repo/zz_gvc_adapter_test.go (package xmpp_test).
package xmpp_test

import (
	"bytes"
	"encoding/xml"
	"fmt"
	"io"
	"strings"
	"testing"

	"mellium.im/xmlstream"
	"mellium.im/xmpp"
	"mellium.im/xmpp/internal/xmpptest"
)

func TestGvcAdapterServeNonReplyType(t *testing.T) {
	for _, typ := range []string{"", "bogus"} {
		var out bytes.Buffer
		rw := struct {
			io.Reader
			io.Writer
		}{strings.NewReader(`<iq xmlns="jabber:client" type="get" id="123"><q xmlns="urn:example"/></iq>`), &out}
		s := xmpptest.NewClientSession(0, rw)
		_ = s.Serve(xmpp.HandlerFunc(func(t xmlstream.TokenReadEncoder, start *xml.StartElement) error {
			st := xml.StartElement{Name: xml.Name{Local: "iq"}, Attr: []xml.Attr{{Name: xml.Name{Local: "id"}, Value: "123"}, {Name: xml.Name{Local: "type"}, Value: typ}}}
			if err := t.EncodeToken(st); err != nil {
				return err
			}
			return t.EncodeToken(st.End())
		}))
		if !strings.Contains(out.String(), "service-unavailable") {
			fmt.Printf("REPRODUCED serve: handler wrote <iq id='123' type=%q/> (not a reply) and no service-unavailable error was added: %s\n", typ, out.String())
			t.Fail()
			return
		}
	}
	fmt.Println("NOT-REPRODUCED serve: non-reply iq types do not suppress the automatic error")
}
