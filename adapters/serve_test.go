// Replay adapter "serve": a served session receives one get IQ; the handler
// writes an iq element with the request's id but a type that is not a reply
// type. The session must still add the service-unavailable error.
// Injected by overlay as /repo/zz_gvc_adapter_test.go (package xmpp_test).
package xmpp_test

import (
	"bytes"
	"context"
	"encoding/xml"
	"fmt"
	"io"
	"strings"
	"testing"
	"time"

	"mellium.im/xmlstream"
	"mellium.im/xmpp"
	"mellium.im/xmpp/internal/xmpptest"
	"mellium.im/xmpp/mux"
	"mellium.im/xmpp/stanza"
)

func TestGvcAdapterServeNonReplyType(t *testing.T) {
	for _, typ := range []string{"", "bogus"} {
		var out bytes.Buffer
		rw := struct {
			io.Reader
			io.Writer
		}{strings.NewReader(`<iq xmlns="jabber:client" type="get" id="123"><q xmlns="urn:example"/></iq>`), &out}
		s := xmpptest.NewClientSession(0, rw)
		_ = s.Serve(xmpp.HandlerFunc(func(t xmlstream.TokenReadEncoder, start *xml.StartElement) error {
			st := xml.StartElement{Name: xml.Name{Local: "iq"}, Attr: []xml.Attr{{Name: xml.Name{Local: "id"}, Value: "123"}, {Name: xml.Name{Local: "type"}, Value: typ}}}
			if err := t.EncodeToken(st); err != nil {
				return err
			}
			return t.EncodeToken(st.End())
		}))
		if !strings.Contains(out.String(), "service-unavailable") {
			fmt.Printf("REPRODUCED serve: handler wrote <iq id='123' type=%q/> (not a reply) and no service-unavailable error was added: %s\n", typ, out.String())
			t.Fail()
			return
		}
	}
	fmt.Println("NOT-REPRODUCED serve: non-reply iq types do not suppress the automatic error")
}

// A get IQ without payload on a session served by the multiplexer: it must be
// answered (service-unavailable) and the stanzas after it must still be served.
func TestGvcAdapterServeEmptyIQThroughMux(t *testing.T) {
	var out bytes.Buffer
	rw := struct {
		io.Reader
		io.Writer
	}{strings.NewReader(`<iq xmlns="jabber:client" type="get" id="e1"/><message xmlns="jabber:client" id="after"><body>x</body></message>`), &out}
	s := xmpptest.NewClientSession(0, rw)
	sawMessage := false
	m := mux.New("jabber:client", mux.MessageFunc("", xml.Name{Local: "body"}, func(stanza.Message, xmlstream.TokenReadEncoder) error {
		sawMessage = true
		return nil
	}))
	err := s.Serve(m)
	if !strings.Contains(out.String(), "service-unavailable") || !sawMessage {
		fmt.Printf("REPRODUCED serve: <iq type='get' id='e1'/> through the multiplexer: answered=%v, later message served=%v, Serve returned %v, wire=%q\n", strings.Contains(out.String(), "service-unavailable"), sawMessage, err, out.String())
		t.Fail()
		return
	}
	fmt.Println("NOT-REPRODUCED serve: an empty get IQ is answered with service-unavailable and serving continues")
}

// Attributes of a foreign namespace that happen to be called id or type are
// not the stanza's id and type.
func TestGvcAdapterServePrefixedIDType(t *testing.T) {
	bad := false
	for _, in := range []string{
		`<iq xmlns="jabber:client" xmlns:x="urn:x" id="a" x:id="b" type="get"><q xmlns="urn:example"/></iq>`,
		`<iq xmlns="jabber:client" xmlns:x="urn:x" id="a" type="get" x:type="result"><q xmlns="urn:example"/></iq>`,
	} {
		var out bytes.Buffer
		rw := struct {
			io.Reader
			io.Writer
		}{strings.NewReader(in), &out}
		s := xmpptest.NewClientSession(0, rw)
		_ = s.Serve(nil)
		if !strings.Contains(out.String(), `id="a"`) || !strings.Contains(out.String(), "service-unavailable") {
			fmt.Printf("REPRODUCED serve: %s was answered with %q (want one service-unavailable error with id \"a\")\n", in, out.String())
			bad = true
		}
	}
	if bad {
		t.Fail()
		return
	}
	fmt.Println("NOT-REPRODUCED serve: prefixed id/type attributes are ignored")
}

// The automatic error reply goes to the sender named by the unqualified from
// attribute, not to a prefixed attribute of another namespace called from.
func TestGvcAdapterServePrefixedFrom(t *testing.T) {
	in := `<iq xmlns="jabber:client" xmlns:x="urn:x" x:from="mallory@example.com" from="juliet@example.org/b" type="get" id="d"><q xmlns="urn:example"/></iq>`
	var out bytes.Buffer
	rw := struct {
		io.Reader
		io.Writer
	}{strings.NewReader(in), &out}
	s := xmpptest.NewClientSession(0, rw)
	_ = s.Serve(nil)
	if strings.Contains(out.String(), "mallory") || !strings.Contains(out.String(), `to="juliet@example.org/b"`) {
		fmt.Printf("REPRODUCED serve: %s was answered with %q (want the error addressed to juliet@example.org/b)\n", in, out.String())
		t.Fail()
		return
	}
	fmt.Println("NOT-REPRODUCED serve: the automatic reply is addressed to the unqualified from attribute")
}

// The stanza's own from attribute is normalised even when an attribute of
// another namespace that is also called from comes first.
func TestGvcAdapterServeOwnFromBehindPrefixedFrom(t *testing.T) {
	in := `<message xmlns="jabber:client" xmlns:x="urn:x" x:from="q" from="test@example.net"><body>hi</body></message>`
	var out bytes.Buffer
	rw := struct {
		io.Reader
		io.Writer
	}{strings.NewReader(in), &out}
	s := xmpptest.NewClientSession(0, rw)
	seen := "<handler not called>"
	_ = s.Serve(xmpp.HandlerFunc(func(t xmlstream.TokenReadEncoder, start *xml.StartElement) error {
		for _, a := range start.Attr {
			if a.Name.Space == "" && a.Name.Local == "from" {
				seen = a.Value
			}
		}
		return nil
	}))
	if seen != "" {
		fmt.Printf("REPRODUCED serve: %s on a session whose own address is test@example.net: the handler saw from=%q (want it presented as empty)\n", in, seen)
		t.Fail()
		return
	}
	fmt.Println("NOT-REPRODUCED serve: the own bare from address is presented as empty")
}

// A reply that arrives when its requester's context has already ended (the
// requester is still registered, blocked behind the output lock) is a response
// nobody waits for: it must reach the handler.
func TestGvcAdapterServeReplyAfterRequesterGaveUp(t *testing.T) {
	pr, pw := io.Pipe()
	var out bytes.Buffer
	s := xmpptest.NewClientSession(0, struct {
		io.Reader
		io.Writer
	}{pr, &out})
	seen := make(chan string, 8)
	go func() {
		_ = s.Serve(xmpp.HandlerFunc(func(t xmlstream.TokenReadEncoder, start *xml.StartElement) error {
			seen <- start.Name.Local
			return nil
		}))
		close(seen)
	}()
	w := s.TokenWriter() // holds the output lock: the request below registers its id and then waits for the lock
	ctx, cancel := context.WithCancel(context.Background())
	done := make(chan struct{})
	go func() {
		defer close(done)
		resp, err := s.SendIQ(ctx, stanza.IQ{ID: "x1", Type: stanza.GetIQ}.Wrap(nil))
		if err == nil && resp != nil {
			resp.Close()
		}
	}()
	time.Sleep(100 * time.Millisecond)
	cancel()
	time.Sleep(50 * time.Millisecond)
	io.WriteString(pw, `<iq xmlns="jabber:client" type="result" id="x1"/><message xmlns="jabber:client" id="after"/>`)
	var got []string
	timeout := time.After(2 * time.Second)
loop:
	for len(got) < 2 {
		select {
		case n, ok := <-seen:
			if !ok {
				break loop
			}
			got = append(got, n)
		case <-timeout:
			break loop
		}
	}
	w.Close()
	pw.Close()
	<-done
	sawIQ := false
	for _, n := range got {
		if n == "iq" {
			sawIQ = true
		}
	}
	if !sawIQ {
		fmt.Printf("REPRODUCED serve: the reply <iq type='result' id='x1'/> arrived after its requester's context had ended (requester still registered, blocked behind the output lock): it reached neither the requester nor the handler (handler saw %v)\n", got)
		t.Fail()
		return
	}
	fmt.Printf("NOT-REPRODUCED serve: the late reply reached the handler (handler saw %v)\n", got)
}
