// Replay adapter "streamerr": a stream error carrying an application-specific
// condition (RFC 6120 section 4.9.3.22) must decode as a stream error.
// Injected by overlay as /repo/stream/zz_gvc_adapter_test.go (package stream_test).
package stream_test

import (
	"encoding/xml"
	"fmt"
	"testing"

	"mellium.im/xmpp/stream"
)

func TestGvcAdapterStreamErrorAppCondition(t *testing.T) {
	bad := ""
	for _, in := range []string{
		`<stream:error xmlns:stream="http://etherx.jabber.org/streams"><undefined-condition xmlns='urn:ietf:params:xml:ns:xmpp-streams'/><escape-your-data xmlns='http://example.org/ns'/></stream:error>`,
		`<stream:error xmlns:stream="http://etherx.jabber.org/streams"><escape-your-data xmlns='http://example.org/ns'><a/></escape-your-data><host-gone xmlns='urn:ietf:params:xml:ns:xmpp-streams'/><text xmlns='urn:ietf:params:xml:ns:xmpp-streams'>bye</text></stream:error>`,
	} {
		var e stream.Error
		err := xml.Unmarshal([]byte(in), &e)
		if err != nil || e.Err == "" {
			bad += fmt.Sprintf(" [%s -> err=%v cond=%q]", in, err, e.Err)
		}
	}
	if bad != "" {
		fmt.Println("REPRODUCED stream error: an error with an application-specific condition does not decode:" + bad)
		t.Fail()
		return
	}
	fmt.Println("NOT-REPRODUCED stream error with application condition decodes")
}
