// Replay adapter "styling": style bookkeeping of the decoder on nested spans
// of the same kind, and chunk independence of the block quote prefix.
// Injected by overlay as /repo/styling/zz_gvc_adapter_test.go (package styling_test).
package styling_test

import (
	"fmt"
	"strings"
	"testing"
	"testing/iotest"

	"mellium.im/xmpp/styling"
)

func gvcDirOK(m styling.Style) bool {
	pairs := [][2]styling.Style{
		{styling.SpanEmphStart | styling.SpanEmphEnd, styling.SpanEmph},
		{styling.SpanStrongStart | styling.SpanStrongEnd, styling.SpanStrong},
		{styling.SpanStrikeStart | styling.SpanStrikeEnd, styling.SpanStrike},
		{styling.SpanPreStart | styling.SpanPreEnd, styling.SpanPre},
		{styling.BlockPreStart | styling.BlockPreEnd, styling.BlockPre},
	}
	for _, p := range pairs {
		if m&p[0] != 0 && m&p[1] == 0 {
			return false
		}
	}
	return true
}

// A directive bit without its style bit: spans of the same kind nested with
// another kind in between.
func TestGvcAdapterStylingNestedSameKind(t *testing.T) {
	for _, in := range []string{"*a _b *c* d_ e*", "_a *b _c_ d* e_", "~a *b ~c~ d* e~"} {
		d := styling.NewDecoder(strings.NewReader(in))
		for d.Next() {
			tok := d.Token()
			if m := d.Style(); !gvcDirOK(m) {
				fmt.Printf("REPRODUCED styling: token %q of %q has mask %v: a start/end directive bit without its style bit\n", tok.Data, in, m)
				t.Fail()
				return
			}
		}
	}
	fmt.Println("NOT-REPRODUCED styling nested spans: every directive bit came with its style bit")
}

// The same input read whole and one byte at a time must give the same tokens.
func TestGvcAdapterStylingQuoteChunks(t *testing.T) {
	collect := func(d *styling.Decoder) string {
		var sb strings.Builder
		for d.Next() {
			fmt.Fprintf(&sb, "%q/%v/%d ", d.Token().Data, d.Style(), d.Quote())
		}
		return sb.String()
	}
	for _, in := range []string{">  quoted\n", ">   a\n>  b\n", "> \t x", ">\u2003quoted", "> \u2003x\n"} {
		whole := collect(styling.NewDecoder(strings.NewReader(in)))
		bytewise := collect(styling.NewDecoder(iotest.OneByteReader(strings.NewReader(in))))
		if whole != bytewise {
			fmt.Printf("REPRODUCED styling: tokens of %q depend on read boundaries: whole=%s one-byte=%s\n", in, whole, bytewise)
			t.Fail()
			return
		}
	}
	fmt.Println("NOT-REPRODUCED styling quote prefix: same tokens for whole and one-byte reads")
}

// A line longer than bufio.Scanner's default token limit: the tokens must
// still concatenate to the input.
func TestGvcAdapterStylingLongLine(t *testing.T) {
	for _, in := range []string{
		strings.Repeat("a", 70000),
		strings.Repeat("a", 70000) + "\n",
		"> " + strings.Repeat("b", 140000) + "\nnext\n",
	} {
		d := styling.NewDecoder(strings.NewReader(in))
		var got strings.Builder
		for d.Next() {
			tok := d.Token()
			got.Write(tok.Data)
		}
		if got.String() != in {
			fmt.Printf("REPRODUCED input of %d bytes: tokens concatenate to %d bytes (err=%v)\n", len(in), got.Len(), d.Err())
			t.Fail()
		}
	}
}
