package upload_test

import (
	"context"
	"encoding/xml"
	"fmt"
	"strings"
	"testing"

	"mellium.im/xmpp/upload"
)

// A slot reply without <put/> decodes without error; using the slot must not panic.
func TestGvcAdapterUploadSlotWithoutPut(t *testing.T) {
	var s upload.Slot
	err := xml.NewDecoder(strings.NewReader(`<slot xmlns="urn:xmpp:http:upload:0"/>`)).Decode(&s)
	if err != nil {
		fmt.Println("NOT-REPRODUCED the empty slot is rejected by the decoder:", err)
		return
	}
	defer func() {
		if r := recover(); r != nil {
			fmt.Printf("REPRODUCED Slot.Put on a decoded slot without <put/> panics: %v\n", r)
			t.Fail()
		}
	}()
	_, err = s.Put(context.Background(), strings.NewReader("x"))
	fmt.Println("NOT-REPRODUCED Put returned", err)
}
