#!/bin/sh
# usage: check.sh <property> <quick|thorough>
export GOFLAGS=-mod=mod GOPROXY=off GOSUMDB=off GOTOOLCHAIN=local CGO_ENABLED=0
cd /verif || exit 2
[ -x /verif/bin/gvc ] || sh /verif/setup.sh >/dev/null 2>&1 || { echo "setup failed"; exit 2; }
exec /verif/bin/gvc check -property "$1" -tier "${2:-quick}"
