package main

import (
	"flag"
	"fmt"
	"os"

	"gvc/vc"
)

func main() {
	if len(os.Args) < 2 {
		fmt.Fprintln(os.Stderr, "usage: gvc check|func|sweep|selftest ...")
		os.Exit(2)
	}
	switch os.Args[1] {
	case "func":
		cmdFunc(os.Args[2:])
	case "check":
		os.Exit(vc.CmdCheck(os.Args[2:]))
	case "sweep":
		os.Exit(vc.CmdSweep(os.Args[2:]))
	default:
		fmt.Fprintln(os.Stderr, "unknown command", os.Args[1])
		os.Exit(2)
	}
}

// gvc func -pkg ./jid -fn '(escapeMapping).Transform' : verify one function, verbose
func cmdFunc(args []string) {
	fs := flag.NewFlagSet("func", flag.ExitOnError)
	repo := fs.String("repo", "/repo", "repository")
	pkg := fs.String("pkg", ".", "package pattern")
	fn := fs.String("fn", "", "function (RelString)")
	prop := fs.String("property", "", "property id")
	tier := fs.String("tier", "quick", "tier")
	dump := fs.Bool("dump", false, "keep SMT files")
	work := fs.String("work", "/tmp/gvc-work", "work dir")
	fs.Parse(args)
	os.Exit(vc.DebugFunc(*repo, *pkg, *fn, *prop, *tier, *dump, *work))
}
