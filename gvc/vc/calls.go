package vc

import (
	"fmt"
	"go/types"
	"sort"
	"strings"

	"golang.org/x/tools/go/ssa"
)

var purePkgs = map[string]bool{
	"bytes": true, "strings": true, "unicode": true, "unicode/utf8": true, "strconv": true,
	"errors": true, "math": true, "math/bits": true, "sort": false, "fmt": false,
	"path": true, "net/url": false, "encoding/hex": true, "encoding/base64": true,
	"unicode/utf16": true, "time": true, "slices": false, "cmp": true, "html": true,
}

// calls in package fmt that do not write through their arguments
var pureFuncs = map[string]bool{
	"fmt.Sprintf": true, "fmt.Sprint": true, "fmt.Sprintln": true, "fmt.Errorf": true,
	"errors.New": true, "errors.Is": true, "errors.As": false, "net.ParseIP": true,
	"sort.SearchStrings": true, "sort.Search": false,
}

func calleeName(c *ssa.CallCommon) string {
	if c.IsInvoke() {
		return "(" + types.TypeString(c.Value.Type(), nil) + ")." + c.Method.Name()
	}
	if fn := c.StaticCallee(); fn != nil {
		return fn.String()
	}
	if b, ok := c.Value.(*ssa.Builtin); ok {
		return b.Name()
	}
	if owner, field := funcFieldOf(c.Value); owner != "" {
		return "field:" + owner + "." + field
	}
	if n := funcTypeOf(c.Value); n != "" {
		return "type:" + n
	}
	return "<dynamic>"
}

func (f *frame) call(in ssa.CallInstruction, st *bstate) {
	c := in.Common()
	f.curIn = in
	var resVal ssa.Value
	if v, ok := in.(*ssa.Call); ok {
		resVal = v
	}
	set := func(tv TV) {
		if resVal != nil {
			f.setVal(resVal, tv)
		}
	}
	if _, ok := in.(*ssa.Go); ok {
		return
	}
	if b, ok := c.Value.(*ssa.Builtin); ok {
		set(f.builtin(b, c, in, st))
		return
	}
	var resT types.Type
	if resVal != nil {
		resT = resVal.Type()
	} else {
		resT = c.Signature().Results()
	}
	set(f.callCommon(c, in, st, resT))
}

func (f *frame) callArgs(c *ssa.CallCommon) []TV {
	var args []TV
	if c.IsInvoke() {
		args = append(args, f.val(c.Value))
	}
	for _, a := range c.Args {
		if _, isLV := f.lvs[a]; isLV {
			args = append(args, TV{T: "0", S: "Int", Ty: a.Type()})
			continue
		}
		args = append(args, f.val(a))
	}
	return args
}

// lvArgs: interior pointers passed to a call: the locations may be written.
func (f *frame) lvArgs(c *ssa.CallCommon) []*LV {
	var out []*LV
	for _, a := range c.Args {
		if lv, ok := f.lvs[a]; ok {
			out = append(out, lv)
		}
	}
	return out
}

func (f *frame) callCommon(c *ssa.CallCommon, in ssa.Instruction, st *bstate, resT types.Type) TV {
	vc := f.vc
	name := calleeName(c)
	ord := f.srcOrdinal(in, name)
	label := f.text(in.Pos(), name)
	lvs := f.lvArgs(c)
	args := f.callArgs(c)

	// calls through a function-typed struct field: `self` names the owning struct
	f.curSelf = nil
	if owner, _ := funcFieldOf(c.Value); owner != "" && c.StaticCallee() == nil {
		switch x := c.Value.(type) {
		case *ssa.UnOp:
			if fa, ok := x.X.(*ssa.FieldAddr); ok {
				sv := f.load(st, f.lvalOf(fa.X))
				f.curSelf = &sv
			}
		case *ssa.Field:
			sv := f.val(x.X)
			f.curSelf = &sv
		}
	}
	// receivers of repo methods are assumed non-nil inside the method: check
	// that assumption at every static call
	if fn := c.StaticCallee(); fn != nil && fn.Pkg != nil && f.eng().isRepoPkg(fn.Pkg.Pkg) && fn.Signature.Recv() != nil && len(c.Args) > 0 {
		if _, isPtr := fn.Signature.Recv().Type().Underlying().(*types.Pointer); isPtr {
			if _, isLV := f.lvs[c.Args[0]]; !isLV && f.methodDerefsRecv(fn) {
				f.nilCheck(st, c.Args[0], &LV{ref: args[0].T}, in.Pos())
			}
		}
	}
	// object invariants are assumed by repo callees for their pointer
	// parameters: check them at every static call
	if fn := c.StaticCallee(); fn != nil && fn.Pkg != nil && f.eng().isRepoPkg(fn.Pkg.Pkg) && len(f.eng().typeInvs) > 0 {
		for i, a := range c.Args {
			if i >= len(args) {
				break
			}
			if _, isPtr := a.Type().Underlying().(*types.Pointer); !isPtr {
				continue
			}
			if _, isLV := f.lvs[a]; isLV {
				continue
			}
			// only objects this function owns or received as parameters: other
			// pointers (loaded from the heap, returned by calls) denote objects at
			// rest, for which the invariant is assumed
			if _, isParam := a.(*ssa.Parameter); !isParam || !f.top {
				continue
			}
			for k, fact := range f.ptrInvsOf(args[i], st, true) {
				f.oblige(st, "typeinv-at-call", fmt.Sprintf("%s:arg%d:%s", label, i, k), implies("(not (= "+args[i].T+" 0))", fact), in.Pos())
			}
		}
	}
	cs := f.callsite(name, ord)
	if cs == nil && f.isForeignCall(c) {
		// "callsite foreign#*": every call that leaves the repository (or is
		// dispatched dynamically) and has no annotation of its own
		cs = f.callsite("foreign", 0)
	}
	if cs != nil {
		f.callsiteBefore(cs, c, args, st, label, in)
	}

	var res TV
	done := false
	// 1. contract (repo function under contract or extern)
	if fc, pkg, pnames, rnames := f.eng().contractFor(c); fc != nil {
		// interior pointers (&v.Type, &s[i]) handed to a contracted callee: the
		// callee's contract speaks about an object, so it gets a fresh one holding
		// a copy of the pointee (copy-in); what the callee left there is written
		// back afterwards (copy-out). Sound as long as the callee does not keep the
		// pointer, which none of the contracted callees called this way does
		// (attribute decoders writing through their receiver).
		type cio struct {
			orig  *LV
			fresh *LV
		}
		var copies []cio
		if len(lvs) > 0 {
			if c.IsInvoke() {
				unsup("interior pointer passed to contracted interface method %s", name)
			}
			for i, a := range c.Args {
				lv, ok := f.lvs[a]
				if !ok {
					continue
				}
				pt, isPtr := a.Type().Underlying().(*types.Pointer)
				if !isPtr || i >= len(args) {
					unsup("interior pointer passed to contracted callee %s", name)
				}
				fr := f.freshRef(st, "iptr", a.Type())
				fl := f.lvOfRef(fr.T, pt.Elem())
				f.store(st, fl, f.load(st, lv))
				args[i] = fr
				copies = append(copies, cio{lv, fl})
			}
			vc.note("interior pointer passed to contracted callee " + name + ": copy-in/copy-out of the pointee (the callee is assumed not to retain the pointer)")
		}
		res = f.applyContract(fc, pkg, pnames, rnames, c.Signature(), args, st, label, resT, in)
		for _, cp := range copies {
			f.store(st, cp.orig, f.load(st, cp.fresh))
		}
		lvs = nil
		done = true
	}
	// 2. inline
	if !done {
		if fn := c.StaticCallee(); fn != nil && len(lvs) == 0 && f.canInline(fn) {
			res = f.inline(fn, c, args, st, label, resT)
			done = true
		}
	}
	// 3. havoc, restricted to the inferred write summary where there is one
	if !done {
		pure := f.isPureCallee(c)
		framed := false
		if !pure {
			if fn := c.StaticCallee(); fn != nil && fn.Pkg != nil && f.eng().isRepoPkg(fn.Pkg.Pkg) {
				if s := f.eng().summary(fn); !s.top {
					f.havocComps(st, s.comps)
					framed = true
					vc.note("inferred frame: call to " + name + " writes only " + fmt.Sprint(len(s.comps)) + " heap components (syntactic, transitive)")
				}
			} else if fn != nil {
				if comps, closed := f.foreignFrame(c); closed {
					f.havocComps(st, comps)
					framed = true
					vc.note("assumed: foreign call " + name + " can only write memory reachable from its arguments (closed types)")
				}
			}
			if !framed {
				f.escapeArgs(c, st)
				f.havocAll(st, name)
			}
		}
		for _, lv := range lvs {
			nv := f.havocValue(st, "esc", lv.ty)
			f.store(st, lv, nv)
		}
		res = f.havocValue(st, f.id+"ret."+shortName(name), resT)
		if pure {
			vc.note("assumed pure (no writes to verified state): " + name)
		} else if !framed {
			vc.note("havoc: call to " + name + " without contract")
		}
	}
	if fn := c.StaticCallee(); fn != nil && fn.Pkg != nil && f.eng().isRepoPkg(fn.Pkg.Pkg) && len(f.eng().typeInvs) > 0 {
		rs := res.Tuple
		if len(rs) == 0 && res.S != "" {
			rs = []TV{res}
		}
		for _, r := range rs {
			if r.Ty == nil {
				continue
			}
			if _, isPtr := r.Ty.Underlying().(*types.Pointer); isPtr {
				for _, fact := range f.ptrInvsOf(r, st, true) {
					f.assume(st, implies("(not (= "+r.T+" 0))", fact))
				}
			}
		}
	}
	if cs != nil {
		f.callsiteAfter(cs, c, args, res, st, label, in)
	}
	f.lockTrack(name, st)
	f.recordErr(name, ord, res, resT, cs, label, st)
	return res
}

func shortName(n string) string {
	if i := strings.LastIndex(n, "/"); i >= 0 {
		n = n[i+1:]
	}
	return strings.NewReplacer("(", "", ")", "", "*", "").Replace(n)
}

func (f *frame) isPureCallee(c *ssa.CallCommon) bool {
	fn := c.StaticCallee()
	if fn == nil {
		return false
	}
	if fn.Pkg == nil {
		// synthetic wrappers / generics instantiations
		if fn.Origin() != nil && fn.Origin().Pkg != nil {
			return purePkgs[fn.Origin().Pkg.Pkg.Path()]
		}
		return false
	}
	if v, ok := pureFuncs[fn.String()]; ok {
		return v
	}
	// functions taking func-typed or io.Writer-ish arguments may call back
	sig := fn.Signature
	for i := 0; i < sig.Params().Len(); i++ {
		switch sig.Params().At(i).Type().Underlying().(type) {
		case *types.Signature, *types.Interface:
			if purePkgs[fn.Pkg.Pkg.Path()] && fn.Pkg.Pkg.Path() != "bytes" && fn.Pkg.Pkg.Path() != "strings" {
				return false
			}
			if _, isSig := sig.Params().At(i).Type().Underlying().(*types.Signature); isSig {
				return false
			}
		}
	}
	if sig.Recv() != nil {
		// methods of pure packages on pointer receivers (bytes.Buffer, strings.Builder) write their receiver
		if _, ptr := sig.Recv().Type().(*types.Pointer); ptr {
			return false
		}
	}
	return purePkgs[fn.Pkg.Pkg.Path()]
}

// escapeArgs: locals whose address flows into an unknown call are escaped
// (handled statically by allocEscapes); nothing to do dynamically.
func (f *frame) escapeArgs(c *ssa.CallCommon, st *bstate) {}

// callMods: static mod-set of a call for loop havoc.
func (f *frame) callMods(in ssa.CallInstruction, mods *modSet, depth int) {
	c := in.Common()
	if b, ok := c.Value.(*ssa.Builtin); ok {
		switch b.Name() {
		case "copy", "append":
			if sl, ok := c.Args[0].Type().Underlying().(*types.Slice); ok {
				es := f.sortOf(sl.Elem())
				if b.Name() == "copy" {
					mods.addAt(compMem(es), arr2(es), sliceRootVal(c.Args[0]))
				} else {
					mods.addAll(compMem(es), arr2(es))
				}
			}
		case "delete":
			mt := c.Args[0].Type().Underlying().(*types.Map)
			f.mapMods(f.sortOf(mt.Key()), f.sortOf(mt.Elem()), mods)
		case "clear":
			mods.star = true
		}
		return
	}
	if fc, _, _, _ := f.eng().contractFor(c); fc != nil {
		if fc.Pure {
			return
		}
		if fn := c.StaticCallee(); fn != nil && fc.Kind == "func" && !fc.HasModifies && f.eng().inferPure(fn) {
			return
		}
		if fc.HasModifies {
			for _, m := range fc.Modifies {
				f.modifiesComps(m, c, mods)
			}
			return
		}
		mods.star = true
		return
	}
	if fn := c.StaticCallee(); fn != nil && f.canInline(fn) && depth < 3 {
		for _, b := range fn.Blocks {
			for _, i2 := range b.Instrs {
				f.instrMods(i2, mods, depth+1)
			}
		}
		return
	}
	if f.isPureCallee(c) {
		for _, a := range c.Args {
			if _, ok := a.Type().Underlying().(*types.Pointer); ok {
				f.storeComps(a, mods)
			}
		}
		return
	}
	if fn := c.StaticCallee(); fn != nil && fn.Pkg != nil && f.eng().isRepoPkg(fn.Pkg.Pkg) {
		if s := f.eng().summary(fn); !s.top {
			for k, v := range s.comps {
				mods.addAll(k, v)
			}
			return
		}
	} else if fn != nil {
		if comps, closed := f.foreignFrame(c); closed {
			for k, v := range comps {
				mods.addAll(k, v)
			}
			return
		}
	}
	mods.star = true
}

// ---------------------------------------------------------------------------
// builtins

func (f *frame) builtin(b *ssa.Builtin, c *ssa.CallCommon, in ssa.Instruction, st *bstate) TV {
	vc := f.vc
	intT := types.Typ[types.Int]
	switch b.Name() {
	case "len":
		v := f.val(c.Args[0])
		switch t := c.Args[0].Type().Underlying().(type) {
		case *types.Slice:
			return TV{T: "(s_len " + v.T + ")", S: "Int", Ty: intT}
		case *types.Basic:
			return TV{T: "(slen " + v.T + ")", S: "Int", Ty: intT}
		case *types.Map:
			ks, vs := f.sortOf(t.Key()), f.sortOf(t.Elem())
			fn := vc.declareFun("maplen:"+ks, []string{"(Array " + ks + " Bool)"}, "Int")
			d := sel(vc.comp(st, compMdom(ks, vs), "(Array Int (Array "+ks+" Bool))"), v.T)
			l := vc.define("len", "Int", ite(eq(v.T, "0"), "0", "("+fn+" "+d+")"))
			f.assume(st, "(>= "+l+" 0)")
			// len == 0 iff the domain is empty
			empty := "((as const (Array " + ks + " Bool)) false)"
			f.assume(st, implies(not(eq(v.T, "0")), eq(eq(l, "0"), eq(d, empty))))
			return TV{T: l, S: "Int", Ty: intT}
		case *types.Array:
			return TV{T: fmt.Sprint(t.Len()), S: "Int", Ty: intT}
		case *types.Pointer:
			if at, ok := t.Elem().Underlying().(*types.Array); ok {
				return TV{T: fmt.Sprint(at.Len()), S: "Int", Ty: intT}
			}
		case *types.Chan:
			return f.havocValue(st, "chanlen", intT)
		}
		unsup("len of %s", c.Args[0].Type())
	case "cap":
		v := f.val(c.Args[0])
		if _, ok := c.Args[0].Type().Underlying().(*types.Slice); ok {
			return TV{T: "(s_cap " + v.T + ")", S: "Int", Ty: intT}
		}
		return f.havocValue(st, "cap", intT)
	case "copy":
		return f.copyBuiltin(c, st)
	case "append":
		return f.appendBuiltin(c, st)
	case "delete":
		m := f.val(c.Args[0])
		t := c.Args[0].Type().Underlying().(*types.Map)
		ks, vs := f.sortOf(t.Key()), f.sortOf(t.Elem())
		k := f.coerceKey(f.val(c.Args[1]), ks)
		ds := "(Array Int (Array " + ks + " Bool))"
		d := vc.comp(st, compMdom(ks, vs), ds)
		// delete on a nil map is a no-op
		vc.setComp(st, compMdom(ks, vs), ds, ite(eq(m.T, "0"), d, sto(d, m.T, sto(sel(d, m.T), k, "false"))))
		return TV{}
	case "print", "println":
		return TV{}
	case "min", "max":
		a := f.val(c.Args[0])
		cur := a.T
		for _, x := range c.Args[1:] {
			bv := f.val(x)
			var lt string
			switch {
			case a.S == "Int":
				lt = "(< " + cur + " " + bv.T + ")"
			case isBV(a.S):
				lt = "(bvult " + cur + " " + bv.T + ")"
			default:
				return f.havocValue(st, "minmax", c.Args[0].Type())
			}
			if b.Name() == "min" {
				cur = ite(lt, cur, bv.T)
			} else {
				cur = ite(lt, bv.T, cur)
			}
		}
		return TV{T: cur, S: a.S, Ty: c.Args[0].Type()}
	case "close":
		vc.note("abstracted: close(chan) in " + f.fn.String())
		return TV{}
	case "recover":
		return f.havocValue(st, "recover", types.NewInterfaceType(nil, nil))
	case "clear":
		f.havocAll(st, "clear")
		return TV{}
	case "ssa:wrapnilchk":
		return f.val(c.Args[0])
	case "new":
		unsup("builtin new")
	}
	unsup("builtin %s", b.Name())
	return TV{}
}

// copy(dst, src): n = min(len dst, len src); dst[0:n] = old src[0:n]
func (f *frame) copyBuiltin(c *ssa.CallCommon, st *bstate) TV {
	vc := f.vc
	dst := f.val(c.Args[0])
	src := f.val(c.Args[1])
	sl := c.Args[0].Type().Underlying().(*types.Slice)
	es := f.sortOf(sl.Elem())
	var srcLen string
	var srcAt func(i string) string
	m := vc.comp(st, compMem(es), arr2(es))
	if src.S == "Str" {
		srcLen = "(slen " + src.T + ")"
		srcAt = func(i string) string { return "(sbyte " + src.T + " " + i + ")" }
	} else {
		srcLen = "(s_len " + src.T + ")"
		srow := vc.define("srow", arr1(es), sel(m, "(s_base "+src.T+")"))
		srcAt = func(i string) string { return sel(srow, "(+ (s_off "+src.T+") "+i+")") }
	}
	n := vc.define("n", "Int", ite("(< (s_len "+dst.T+") "+srcLen+")", "(s_len "+dst.T+")", srcLen))
	drow := sel(m, "(s_base "+dst.T+")")
	nrow := vc.fresh("row", arr1(es))
	off := "(s_off " + dst.T + ")"
	vc.assert(fmt.Sprintf("(forall ((i Int)) (! (= (select %s i) (ite (and (<= %s i) (< i (+ %s %s))) %s (select %s i))) :pattern ((select %s i))))",
		nrow, off, off, n, srcAt("(- i "+off+")"), drow, nrow))
	// copying zero elements changes nothing (also covers nil dst)
	vc.setComp(st, compMem(es), arr2(es), ite(eq(n, "0"), m, sto(m, "(s_base "+dst.T+")", nrow)))
	return TV{T: n, S: "Int", Ty: types.Typ[types.Int]}
}

// append(s, elems...): result has len = len s + len elems; prefix preserved;
// may or may not reuse the backing array of s (both allowed by the spec: if
// capacity suffices it must reuse).
func (f *frame) appendBuiltin(c *ssa.CallCommon, st *bstate) TV {
	vc := f.vc
	s := f.val(c.Args[0])
	e := f.val(c.Args[1])
	sl := c.Args[0].Type().Underlying().(*types.Slice)
	es := f.sortOf(sl.Elem())
	m := vc.comp(st, compMem(es), arr2(es))
	var eLen string
	var eAt func(i string) string
	if e.S == "Str" {
		eLen = "(slen " + e.T + ")"
		eAt = func(i string) string { return "(sbyte " + e.T + " " + i + ")" }
	} else {
		eLen = "(s_len " + e.T + ")"
		erow := vc.define("erow", arr1(es), sel(m, "(s_base "+e.T+")"))
		eAt = func(i string) string { return sel(erow, "(+ (s_off "+e.T+") "+i+")") }
	}
	newLen := vc.define("alen", "Int", "(+ (s_len "+s.T+") "+eLen+")")
	fits := vc.define("fits", "Bool", "(<= "+newLen+" (s_cap "+s.T+"))")
	// reuse case: write into the same row
	fresh := f.freshRef(st, "append", c.Args[0].Type())
	base := vc.define("abase", "Int", ite(fits, "(s_base "+s.T+")", fresh.T))
	off := vc.define("aoff", "Int", ite(fits, "(s_off "+s.T+")", "0"))
	ncap := vc.fresh("acap", "Int")
	vc.assert(fmt.Sprintf("(and (>= %s %s) (=> %s (= %s (s_cap %s))))", ncap, newLen, fits, ncap, s.T))
	srow := sel(m, "(s_base "+s.T+")")
	// append(s, x0, ..., xk) with a small literal number of elements: when the
	// result fits the row is the old row with k+1 stores (no quantifier)
	if n, ok := smallVarargs(c.Args[1]); ok && e.S != "Str" {
		stored := srow
		for k := 0; k < n; k++ {
			stored = sto(stored, fmt.Sprintf("(+ (s_off %s) (s_len %s) %d)", s.T, s.T, k), eAt(fmt.Sprint(k)))
		}
		frow := vc.fresh("row", arr1(es))
		vc.assert(fmt.Sprintf("(forall ((i Int)) (! (= (select %s i) (ite (and (<= 0 i) (< i (s_len %s))) (select %s (+ (s_off %s) i)) (ite (and (<= (s_len %s) i) (< i %s)) %s %s))) :pattern ((select %s i))))",
			frow, s.T, srow, s.T, s.T, newLen, eAt("(- i (s_len "+s.T+"))"), f.sr().zero(sl.Elem()), frow))
		inLoop := false
		if f.curIn != nil {
			for _, li := range f.loops {
				if li.body[f.curIn.Block()] {
					inLoop = true
				}
			}
		}
		top := f.topFrame()
		if !inLoop && top.contract != nil && top.contract.Hints["appendcopy"] {
			// the same copy fact triggered from reads of the source row, so that
			// what is known about an old element carries over to a reallocated
			// row (straight-line appends only: inside loops the extra trigger
			// slows the in-place reasoning down)
			vc.assert(fmt.Sprintf("(forall ((a Int)) (! (=> (and (<= (s_off %s) a) (< a (+ (s_off %s) (s_len %s)))) (= (select %s (- a (s_off %s))) (select %s a))) :pattern ((select %s a))))",
				s.T, s.T, s.T, frow, s.T, srow, srow))
		}
		nrow := vc.define("row", arr1(es), ite(fits, stored, frow))
		// ground reads of the appended elements (instances of the definitions above)
		for k := 0; k < n; k++ {
			vc.assert(fmt.Sprintf("(= (select %s (+ %s (s_len %s) %d)) %s)", nrow, off, s.T, k, eAt(fmt.Sprint(k))))
		}
		vc.setComp(st, compMem(es), arr2(es), sto(m, base, nrow))
		r := vc.define("app", "Slice", fmt.Sprintf("(mk_slice %s %s %s %s)", base, off, newLen, ncap))
		return TV{T: r, S: "Slice", Ty: c.Args[0].Type()}
	}
	nrow := vc.fresh("row", arr1(es))
	// nrow[off+i] = s[i] for i < len s; = e[i-len s] for len s <= i < newLen; other positions: unchanged when reusing
	vc.assert(fmt.Sprintf("(forall ((i Int)) (! (= (select %s i) (ite (and (<= %s i) (< i (+ %s (s_len %s)))) (select %s (+ (s_off %s) (- i %s))) (ite (and (<= (+ %s (s_len %s)) i) (< i (+ %s %s))) %s (ite %s (select %s i) %s)))) :pattern ((select %s i))))",
		nrow, off, off, s.T, srow, s.T, off,
		off, s.T, off, newLen, eAt("(- i (+ "+off+" (s_len "+s.T+")))"),
		fits, srow, f.sr().zero(sl.Elem()), nrow))
	vc.setComp(st, compMem(es), arr2(es), sto(m, base, nrow))
	r := vc.define("app", "Slice", fmt.Sprintf("(mk_slice %s %s %s %s)", base, off, newLen, ncap))
	return TV{T: r, S: "Slice", Ty: c.Args[0].Type()}
}

// smallVarargs: the appended slice is the compiler-made array of a call
// append(s, x0, ..., xk) with at most 4 elements.
func smallVarargs(v ssa.Value) (int, bool) {
	sl, ok := v.(*ssa.Slice)
	if !ok || sl.Low != nil || sl.High != nil {
		return 0, false
	}
	al, ok := sl.X.(*ssa.Alloc)
	if !ok || al.Comment != "varargs" {
		return 0, false
	}
	at, ok := al.Type().(*types.Pointer).Elem().Underlying().(*types.Array)
	if !ok || at.Len() < 1 || at.Len() > 4 {
		return 0, false
	}
	return int(at.Len()), true
}

// ---------------------------------------------------------------------------
// contracts at call sites

func (f *frame) applyContract(fc *FuncC, pkg *types.Package, pnames, rnames []string, sig *types.Signature, args []TV, st *bstate, label string, resT types.Type, in ssa.Instruction) TV {
	vc := f.vc
	if pkg == nil {
		pkg = f.pkgTypes()
	}
	env := &Env{f: f, vars: map[string]TV{}, st: st, pkg: pkg}
	for i, n := range pnames {
		if i < len(args) && n != "" && n != "_" {
			env.vars[n] = args[i]
		}
	}
	for i := range args {
		env.vars[fmt.Sprintf("arg%d", i)] = args[i]
	}
	if f.curSelf != nil {
		env.vars["self"] = *f.curSelf
	}
	// preconditions
	for _, r := range fc.Requires {
		if !f.eng().clauseActive(r) || r.Kind == "relies" {
			continue
		}
		g := f.transBool(r.Expr, env)
		f.obligeClause(st, "pre", label+":"+r.Text, g, r, in.Pos())
	}
	for _, pc := range fc.Ensures {
		if pc.Kind == "panics" && f.eng().clauseActive(pc) {
			f.obligeClause(st, "pre", label+":does not panic:"+pc.Text, not(f.transBool(pc.Expr, env)), pc, in.Pos())
		}
	}
	pre := st.clone()
	// frame
	inferred := false
	if fc.Kind == "func" && !fc.Pure && !fc.HasModifies {
		if cal, ok := in.(ssa.CallInstruction); ok {
			if fn := cal.Common().StaticCallee(); fn != nil && f.eng().inferPure(fn) {
				inferred = true
			}
		}
	}
	var sumComps map[string]string
	if fc.Kind == "func" && !fc.Pure && !fc.HasModifies && !inferred {
		if cal, ok := in.(ssa.CallInstruction); ok {
			if fn := cal.Common().StaticCallee(); fn != nil {
				if s := f.eng().summary(fn); !s.top {
					sumComps = s.comps
				}
			}
		}
	}
	switch {
	case fc.Pure, inferred:
	case sumComps != nil:
		f.havocComps(st, sumComps)
	case fc.HasModifies:
		for _, m := range fc.Modifies {
			f.havocModifies(m, env, st)
		}
	default:
		f.havocAll(st, fc.Ref)
	}
	res := f.havocValue(st, f.id+"ret."+shortName(fc.Ref), resT)
	// postconditions
	penv := &Env{f: f, vars: map[string]TV{}, st: st, old: pre, pkg: pkg, oldVars: env.vars}
	for k, v := range env.vars {
		penv.vars[k] = v
	}
	var rs []TV
	if len(res.Tuple) > 0 {
		rs = res.Tuple
	} else if res.S != "" {
		rs = []TV{res}
	}
	for i, r := range rs {
		penv.vars[fmt.Sprintf("result%d", i)] = r
		penv.vars[fmt.Sprintf("ret%d", i)] = r
		if i < len(rnames) && rnames[i] != "" && rnames[i] != "_" {
			penv.vars[rnames[i]] = r
		}
	}
	if len(rs) == 1 {
		penv.vars["result"] = rs[0]
	}
	for _, e := range fc.Ensures {
		if !f.eng().clauseActive(e) || e.Kind == "panics" {
			continue
		}
		// clauses that speak about the callee's ghosts or locals are internal to
		// its proof and not visible to callers
		if fact, ok := f.tryTransBool(e.Expr, penv); ok {
			f.assume(st, fact)
		} else {
			vc.note("callee clause not exported (mentions callee-internal names): " + fc.Ref + ": " + e.Text)
		}
	}
	if fc.Kind == "extern" {
		vc.note("assumed contract (extern): " + fc.Ref)
	}
	return res
}

// havocModifies handles one item of a modifies clause: p.f, s[*], *p, all
func (f *frame) havocModifies(m string, env *Env, st *bstate) {
	vc := f.vc
	if m == "all" || m == "*" {
		f.havocAll(st, "modifies all")
		return
	}
	if strings.HasSuffix(m, "[*]") {
		e, err := ParseCExpr(strings.TrimSuffix(m, "[*]"))
		if err != nil {
			unsup("modifies %q: %v", m, err)
		}
		s := f.trans(e, env)
		if s.S != "Slice" {
			unsup("modifies %q: not a slice", m)
		}
		es := f.sortOf(s.Ty.Underlying().(*types.Slice).Elem())
		mem := vc.comp(st, compMem(es), arr2(es))
		row := sel(mem, "(s_base "+s.T+")")
		nrow := vc.fresh("row", arr1(es))
		vc.assert(fmt.Sprintf("(forall ((i Int)) (! (=> (not (and (<= (s_off %s) i) (< i (+ (s_off %s) (s_len %s))))) (= (select %s i) (select %s i))) :pattern ((select %s i))))", s.T, s.T, s.T, nrow, row, nrow))
		vc.setComp(st, compMem(es), arr2(es), sto(mem, "(s_base "+s.T+")", nrow))
		return
	}
	e, err := ParseCExpr(m)
	if err != nil {
		unsup("modifies %q: %v", m, err)
	}
	lv := f.transLV(e, env)
	nv := f.havocValue(st, "mod", lv.ty)
	f.store(st, lv, nv)
}

func (f *frame) modifiesComps(m string, c *ssa.CallCommon, mods *modSet) {
	// static over-approximation: anything we cannot classify is "*"
	if strings.HasSuffix(m, "[*]") {
		// find the parameter
		mods.star = true
		return
	}
	mods.star = true
}

// ---------------------------------------------------------------------------
// inlining

func (f *frame) canInline(fn *ssa.Function) bool {
	if fn.Blocks == nil || f.depth >= 4 {
		return false
	}
	if fn.Pkg == nil || !f.eng().isRepoPkg(fn.Pkg.Pkg) {
		return false
	}
	if v, ok := f.eng().inlineOK[fn]; ok {
		return v
	}
	ok := true
	n := 0
	for _, b := range fn.Blocks {
		for _, s := range b.Succs {
			if s.Dominates(b) {
				ok = false
			}
		}
		for _, in := range b.Instrs {
			n++
			switch x := in.(type) {
			case *ssa.Go, *ssa.Defer, *ssa.Select, *ssa.Send, *ssa.RunDefers, *ssa.MakeClosure:
				ok = false
			case *ssa.Call:
				if x.Call.StaticCallee() == fn {
					ok = false
				}
			}
		}
	}
	if n > 120 || fn.Recover != nil {
		ok = false
	}
	for fr := f; fr != nil; fr = fr.caller {
		if fr.fn == fn {
			return false
		}
	}
	f.eng().inlineOK[fn] = ok
	return ok
}

func (f *frame) inline(fn *ssa.Function, c *ssa.CallCommon, args []TV, st *bstate, label string, resT types.Type) TV {
	vc := f.vc
	vc.nameCnt++
	sub := &frame{vc: vc, fn: fn, id: fmt.Sprintf("%si%d.", f.id, vc.nameCnt), namePfx: f.namePfx + "/in:" + fn.RelString(f.fn.Pkg.Pkg),
		vals: map[ssa.Value]TV{}, lvs: map[ssa.Value]*LV{}, depth: f.depth + 1, callOrd: map[string]int{}, caller: f}
	sub.run(st, args)
	// merge returns
	if len(sub.rets) == 0 {
		st.alive = "false"
		return f.havocValue(st, "noret", resT)
	}
	var ins []inEdge
	for _, r := range sub.rets {
		ins = append(ins, inEdge{cond: r.st.alive, st: r.st})
	}
	merged := sub.mergeStates(fn.Blocks[0], ins)
	*st = *merged
	nres := len(sub.rets[0].results)
	mk := func(i int) TV {
		last := sub.rets[len(sub.rets)-1].results[i]
		m := last.T
		for k := len(sub.rets) - 2; k >= 0; k-- {
			m = ite(sub.rets[k].st.alive, sub.rets[k].results[i].T, m)
		}
		last.T = vc.define(f.id+"ret."+fn.Name(), last.S, m)
		return last
	}
	f.locals = append(f.locals, sub.locals...)
	switch nres {
	case 0:
		return TV{}
	case 1:
		return mk(0)
	}
	var tv TV
	for i := 0; i < nres; i++ {
		tv.Tuple = append(tv.Tuple, mk(i))
	}
	return tv
}

// ---------------------------------------------------------------------------
// defers, closures

func (f *frame) deferInstr(x *ssa.Defer, st *bstate) {
	// evaluated at RunDefers; arguments are evaluated now
	for b := range f.loops {
		if f.loops[b].body[x.Block()] {
			unsup("defer inside a loop")
		}
	}
	d := &deferRec{instr: x, armed: st.alive}
	d.args = f.callArgs(x.Common())
	f.defers = append(f.defers, d)
}

func (f *frame) runDefers(st *bstate, at ssa.Instruction) {
	vc := f.vc
	for i := len(f.defers) - 1; i >= 0; i-- {
		d := f.defers[i]
		c := d.instr.Common()
		name := calleeName(c)
		// run the deferred call on the paths where it was armed
		armed := d.armed
		branch := st.clone()
		branch.alive = vc.define("a", "Bool", and(st.alive, armed))
		var cs *CallsiteC
		if _, isB := c.Value.(*ssa.Builtin); !isB {
			cs = f.callsite(name, f.srcOrdinal(d.instr, name))
			if cs == nil && f.isForeignCall(c) {
				cs = f.callsite("foreign", 0)
			}
		}
		if cs != nil {
			f.callsiteBefore(cs, c, d.args, branch, "defer "+name, at)
		}
		if b, ok := c.Value.(*ssa.Builtin); ok {
			f.builtin(b, c, d.instr, branch)
		} else if mc, ok := c.Value.(*ssa.MakeClosure); ok && f.canInlineClosure(mc) {
			f.inlineClosure(mc, d.args, branch, "defer "+name)
		} else if fc, pkg, pn, rn := f.eng().contractFor(c); fc != nil {
			f.applyContract(fc, pkg, pn, rn, c.Signature(), d.args, branch, "defer "+name, c.Signature().Results(), d.instr)
		} else if f.isPureCallee(c) {
		} else {
			f.havocAll(branch, "defer "+name)
			vc.note("havoc: deferred call to " + name + " without contract")
		}
		if cs != nil {
			f.callsiteAfter(cs, c, d.args, TV{}, branch, "defer "+name, at)
		}
		f.lockTrack(name, branch)
		skip := st.clone()
		skip.alive = vc.define("a", "Bool", and(st.alive, not(armed)))
		m := f.mergeStates(d.instr.Block(), []inEdge{{cond: branch.alive, st: branch}, {cond: skip.alive, st: skip}})
		*st = *m
	}
}

func (f *frame) makeClosure(x *ssa.MakeClosure, st *bstate) {
	fn := x.Fn.(*ssa.Function)
	r := f.freshRef(st, x.Name(), x.Type())
	f.eng().closureFn[r.T] = fn
	f.setVal(x, r)
	_ = fn
}

// ---------------------------------------------------------------------------
// call-site annotations and error tracking

func (f *frame) callsite(name string, ord int) *CallsiteC {
	if f.contract == nil || !f.top {
		return nil
	}
	for _, cs := range f.contract.Callsites {
		if (cs.Ord == ord || cs.Ord == 0) && matchCallee(cs.Callee, name) {
			if f.csUsed == nil {
				f.csUsed = map[*CallsiteC]bool{}
			}
			f.csUsed[cs] = true
			return cs
		}
	}
	return nil
}

// isForeignCall: the callee is not a function of this repository that is
// called statically.
func (f *frame) isForeignCall(c *ssa.CallCommon) bool {
	fn := c.StaticCallee()
	if fn == nil {
		return true
	}
	if fn.Origin() != nil {
		fn = fn.Origin()
	}
	if fn.Pkg == nil {
		return true
	}
	return !f.eng().isRepoPkg(fn.Pkg.Pkg)
}

func matchCallee(pat, name string) bool {
	if pat == name {
		return true
	}
	// normalise: drop receiver parentheses/stars and the import path
	p, n := shortName(pat), shortName(name)
	return p == n || strings.HasSuffix(n, "."+p)
}

func (f *frame) callEnv(c *ssa.CallCommon, args []TV, st *bstate) *Env {
	env := f.baseEnv(st)
	if f.curSelf != nil {
		env.vars["self"] = *f.curSelf
	}
	for i := range args {
		a := args[i]
		if c != nil && !c.IsInvoke() && len(c.Args) == len(args) {
			if lv, ok := f.lvs[c.Args[i]]; ok && lv != nil {
				a.LV = lv
			}
		}
		env.vars[fmt.Sprintf("arg%d", i)] = a
	}
	return env
}

func (f *frame) callsiteBefore(cs *CallsiteC, c *ssa.CallCommon, args []TV, st *bstate, label string, in ssa.Instruction) {
	env := f.callEnv(c, args, st)
	f.anchorAt(env, in, false)
	f.localsEnv(env, st)
	for _, ga := range cs.Before {
		f.ghostAssign(ga, env, st)
	}
	f.preserved = nil
	for _, pr := range cs.Preserves {
		// a name that is not in scope yet at this call (wildcard call sites) has
		// nothing to preserve
		if tv, ok := f.tryTrans(pr.Expr, env); ok {
			f.preserved = append(f.preserved, f.snapshot(tv, st))
		} else {
			f.preserved = append(f.preserved, snap{})
		}
	}
	for _, a := range cs.Assert {
		if !f.eng().clauseActive(a) {
			continue
		}
		f.obligeClause(st, "assert", label+":"+a.Text, f.transBool(a.Expr, env), a, 0)
	}
}

func (f *frame) callsiteAfter(cs *CallsiteC, c *ssa.CallCommon, args []TV, res TV, st *bstate, label string, in ssa.Instruction) {
	if len(cs.After) == 0 && len(cs.Assume) == 0 && len(cs.Preserves) == 0 && len(cs.Havoc) == 0 {
		return
	}
	env := f.callEnv(c, args, st)
	f.anchorAt(env, in, false)
	f.localsEnv(env, st)
	for i, pr := range cs.Preserves {
		if i < len(f.preserved) && f.preserved[i].v.T != "" {
			f.assume(st, f.sameSnapshot(f.preserved[i], f.trans(pr.Expr, env), st))
			f.vc.note("assumed frame at call site " + label + ": preserves " + pr.Text)
		}
	}
	f.preserved = nil
	for _, h := range cs.Havoc {
		f.havocModifies(h, env, st)
		f.vc.note("interference at call site " + label + ": " + h + " is arbitrary afterwards")
	}
	env = f.callEnv(c, args, st)
	f.anchorAt(env, in, true)
	f.localsEnv(env, st)
	rs := res.Tuple
	if len(rs) == 0 && res.S != "" {
		rs = []TV{res}
	}
	for i, r := range rs {
		env.vars[fmt.Sprintf("ret%d", i)] = r
	}
	for _, ga := range cs.After {
		f.ghostAssign(ga, env, st)
	}
	for _, a := range cs.Assume {
		if !f.eng().clauseActive(a) {
			continue
		}
		f.assume(st, f.transBool(a.Expr, env))
		f.vc.note("assumed at call site " + label + ": " + a.Text)
	}
}

// snapshot of a value for preserves/unchanged: the value itself and, for
// maps, the rows holding their contents.
type snap struct {
	v        TV
	dom, val string
	row      string
}

func (f *frame) snapshot(v TV, st *bstate) snap {
	s := snap{v: v}
	if v.Ty != nil {
		if t, ok := v.Ty.Underlying().(*types.Map); ok {
			ks, vs := f.sortOf(t.Key()), f.sortOf(t.Elem())
			s.dom = sel(f.vc.comp(st, compMdom(ks, vs), "(Array Int (Array "+ks+" Bool))"), v.T)
			s.val = sel(f.vc.comp(st, compMval(ks, vs), "(Array Int (Array "+ks+" "+vs+"))"), v.T)
		}
		if t, ok := v.Ty.Underlying().(*types.Slice); ok && v.S == "Slice" {
			es := f.sortOf(t.Elem())
			s.row = sel(f.vc.comp(st, compMem(es), arr2(es)), "(s_base "+v.T+")")
		}
	}
	return s
}

func (f *frame) sameSnapshot(old snap, v TV, st *bstate) string {
	var eqv string
	if v.S == "Iface" {
		eqv = f.ifaceEq(old.v.T, v.T)
	} else {
		eqv = eq(old.v.T, v.T)
	}
	now := f.snapshot(v, st)
	if old.row != "" && now.row != "" {
		return and(eqv, eq(old.row, now.row))
	}
	if old.dom == "" {
		return eqv
	}
	return and(eqv, eq(old.dom, now.dom), eq(old.val, now.val))
}

func (f *frame) ghostAssign(ga GhostAssign, env *Env, st *bstate) {
	cur, ok := st.ghost[ga.Name]
	if !ok {
		unsup("assignment to undeclared ghost %s", ga.Name)
	}
	v := f.trans(ga.Expr, env)
	cur.T = f.vc.define("ghost."+ga.Name, cur.S, f.coerceTV(v, cur.S))
	st.ghost[ga.Name] = cur
}

func (f *frame) recordErr(name string, ord int, res TV, resT types.Type, cs *CallsiteC, label string, st *bstate) {
	if !f.top || !f.eng().noSwallowActive(f.contract) {
		return
	}
	g, ok := st.ghost[noSwallowGhost]
	if !ok {
		return
	}
	if cs != nil && cs.Ignore != "" {
		f.vc.note("noswallow: error of " + label + " deliberately ignored: " + cs.Ignore)
		return
	}
	rs := res.Tuple
	if len(rs) == 0 && res.S != "" {
		rs = []TV{res}
	}
	for _, r := range rs {
		if r.S == "Iface" && r.Ty != nil && types.Identical(r.Ty, errorType) {
			g.T = f.vc.define("ghost."+noSwallowGhost, "Bool", or(g.T, not(f.ifaceEq(r.T, zeroOfSort("Iface")))))
			st.ghost[noSwallowGhost] = g
		}
	}
}

var errorType = types.Universe.Lookup("error").Type()

// anchorAt sets the program point used to resolve source-level locals.
func (f *frame) anchorAt(env *Env, in ssa.Instruction, after bool) {
	b := in.Block()
	if b == nil {
		return
	}
	env.anchorBlock = b
	for i, x := range b.Instrs {
		if x == in {
			env.anchorIdx = i
			if after {
				env.anchorIdx = i + 1
			}
		}
	}
}

func (f *frame) pkgTypes() *types.Package {
	for fr := f; fr != nil; fr = fr.caller {
		if fr.fn != nil && fr.fn.Pkg != nil {
			return fr.fn.Pkg.Pkg
		}
	}
	return nil
}

// methodDerefsRecv: does the method touch its receiver's fields at all? (a nil
// receiver is legal for methods that never dereference it)
func (f *frame) methodDerefsRecv(fn *ssa.Function) bool {
	if len(fn.Params) == 0 || fn.Blocks == nil {
		return true
	}
	recv := fn.Params[0]
	refs := recv.Referrers()
	if refs == nil {
		return true
	}
	for _, r := range *refs {
		switch x := r.(type) {
		case *ssa.DebugRef:
		case *ssa.BinOp:
			// comparison with nil
		case *ssa.Call:
			// passed on as the receiver of another repo method that does not
			// dereference it either
			if callee := x.Call.StaticCallee(); callee != nil && len(x.Call.Args) > 0 && x.Call.Args[0] == ssa.Value(recv) && callee != fn && callee.Signature.Recv() != nil && callee.Pkg != nil && f.eng().isRepoPkg(callee.Pkg.Pkg) {
				onlyRecv := true
				for _, a := range x.Call.Args[1:] {
					if a == ssa.Value(recv) {
						onlyRecv = false
					}
				}
				if onlyRecv && !f.methodDerefsRecv(callee) {
					continue
				}
			}
			return true
		case *ssa.FieldAddr, *ssa.UnOp, *ssa.Store:
			// a dereference guarded by an explicit nil test at the top is common
			// (if d == nil { return }): accept when the first instruction tests nil
			_ = x
			if guardedByNilTest(fn, recv) {
				return false
			}
			return true
		default:
			return true
		}
	}
	return false
}

// guardedByNilTest: the entry block ends in `if recv == nil` (either polarity).
func guardedByNilTest(fn *ssa.Function, recv *ssa.Parameter) bool {
	b := fn.Blocks[0]
	if len(b.Instrs) == 0 {
		return false
	}
	iff, ok := b.Instrs[len(b.Instrs)-1].(*ssa.If)
	if !ok {
		return false
	}
	bo, ok := iff.Cond.(*ssa.BinOp)
	if !ok {
		return false
	}
	isNil := func(v ssa.Value) bool {
		c, ok := v.(*ssa.Const)
		return ok && c.IsNil()
	}
	if !((bo.X == ssa.Value(recv) && isNil(bo.Y)) || (bo.Y == ssa.Value(recv) && isNil(bo.X))) {
		return false
	}
	// no dereference of recv in the entry block itself
	for _, in := range b.Instrs {
		switch x := in.(type) {
		case *ssa.FieldAddr:
			if x.X == ssa.Value(recv) {
				return false
			}
		case *ssa.UnOp:
			if x.X == ssa.Value(recv) {
				return false
			}
		}
	}
	return true
}

// canInlineClosure: deferred function literals that are loop-free and small
// are executed in place (their captured variables are the caller's cells).
func (f *frame) canInlineClosure(mc *ssa.MakeClosure) bool {
	fn, ok := mc.Fn.(*ssa.Function)
	if !ok || fn.Blocks == nil || f.depth >= 4 {
		return false
	}
	n := 0
	for _, b := range fn.Blocks {
		for _, s := range b.Succs {
			if s.Dominates(b) {
				return false
			}
		}
		for _, in := range b.Instrs {
			n++
			switch in.(type) {
			case *ssa.Go, *ssa.Defer, *ssa.Select, *ssa.Send, *ssa.RunDefers, *ssa.MakeClosure:
				return false
			}
		}
	}
	return n <= 80 && fn.Recover == nil
}

func (f *frame) inlineClosure(mc *ssa.MakeClosure, args []TV, st *bstate, label string) {
	fn := mc.Fn.(*ssa.Function)
	vc := f.vc
	vc.nameCnt++
	sub := &frame{vc: vc, fn: fn, id: fmt.Sprintf("%sc%d.", f.id, vc.nameCnt), namePfx: f.namePfx + "/in:" + fn.Name(),
		vals: map[ssa.Value]TV{}, lvs: map[ssa.Value]*LV{}, depth: f.depth + 1, callOrd: map[string]int{}, caller: f, fvBind: map[*ssa.FreeVar]TV{}}
	for i, fv := range fn.FreeVars {
		if _, isLV := f.lvs[mc.Bindings[i]]; isLV {
			unsup("closure captures an interior pointer")
		}
		sub.fvBind[fv] = f.val(mc.Bindings[i])
	}
	sub.run(st, args)
	if len(sub.rets) == 0 {
		st.alive = "false"
		return
	}
	var ins []inEdge
	for _, r := range sub.rets {
		ins = append(ins, inEdge{cond: r.st.alive, st: r.st})
	}
	merged := sub.mergeStates(fn.Blocks[0], ins)
	*st = *merged
	f.locals = append(f.locals, sub.locals...)
}

func (f *frame) tryTrans(e CE, env *Env) (res TV, ok bool) {
	defer func() {
		if r := recover(); r != nil {
			if ce, isC := r.(cerr); isC && strings.Contains(string(ce), "unresolved name") {
				ok = false
				return
			}
			panic(r)
		}
	}()
	return f.trans(e, env), true
}

func (f *frame) tryTransBool(e CE, env *Env) (res string, ok bool) {
	defer func() {
		if r := recover(); r != nil {
			if ce, isC := r.(cerr); isC && strings.Contains(string(ce), "unresolved name") {
				ok = false
				return
			}
			panic(r)
		}
	}()
	return f.transBool(e, env), true
}

// srcOrdinal: 1-based position of the call among the calls to the same callee
// in the function, in source order (stable under block reordering).
func (f *frame) srcOrdinal(in ssa.Instruction, name string) int {
	if f.ordOf == nil {
		f.ordOf = map[ssa.Instruction]int{}
		byName := map[string][]ssa.Instruction{}
		for _, b := range f.fn.Blocks {
			for _, i2 := range b.Instrs {
				if ci, ok := i2.(ssa.CallInstruction); ok {
					if _, isB := ci.Common().Value.(*ssa.Builtin); isB {
						continue
					}
					n := calleeName(ci.Common())
					byName[n] = append(byName[n], i2)
				}
				if _, ok := i2.(*ssa.Select); ok {
					byName["select"] = append(byName["select"], i2)
				}
			}
		}
		for _, list := range byName {
			sort.SliceStable(list, func(a, b int) bool {
				pa, pb := list[a].Pos(), list[b].Pos()
				if pa == pb {
					return list[a].Block().Index < list[b].Block().Index
				}
				return pa < pb
			})
			for k, i2 := range list {
				f.ordOf[i2] = k + 1
			}
		}
	}
	if o, ok := f.ordOf[in]; ok {
		return o
	}
	f.callOrd[name]++
	return 1000 + f.callOrd[name]
}

// selectAnnot: `callsite select#k` is a pseudo call site for the k-th select
// statement of the function (source order). Supported: `preserves` (assumed
// frame across the wait, like at a call) and `after:` ghost assignments, with
// ret0 the index of the chosen case (-1: default).
func (f *frame) selectCS(x *ssa.Select) *CallsiteC {
	if f.contract == nil || !f.top {
		return nil
	}
	return f.callsite("select", f.srcOrdinal(x, "select"))
}

func (f *frame) selectBefore(x *ssa.Select, st *bstate) []snap {
	cs := f.selectCS(x)
	if cs == nil {
		return nil
	}
	env := f.baseEnv(st)
	f.anchorAt(env, x, false)
	f.localsEnv(env, st)
	var out []snap
	for _, pr := range cs.Preserves {
		if tv, ok := f.tryTrans(pr.Expr, env); ok {
			out = append(out, f.snapshot(tv, st))
		} else {
			out = append(out, snap{})
		}
	}
	return out
}

func (f *frame) selectAfter(x *ssa.Select, idx TV, pres []snap, st *bstate) {
	cs := f.selectCS(x)
	if cs == nil {
		return
	}
	env := f.baseEnv(st)
	f.anchorAt(env, x, true)
	f.localsEnv(env, st)
	for i, pr := range cs.Preserves {
		if i < len(pres) && pres[i].v.T != "" {
			f.assume(st, f.sameSnapshot(pres[i], f.trans(pr.Expr, env), st))
			f.vc.note("assumed frame at select: preserves " + pr.Text)
		}
	}
	env.vars["ret0"] = idx
	for _, ga := range cs.After {
		f.ghostAssign(ga, env, st)
	}
}
