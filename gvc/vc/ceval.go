package vc

// Concrete interpreter for contract expressions, used by the leaf replay to
// evaluate a failed clause on the values produced by the real code.

import (
	"fmt"
	"go/token"
	"strconv"

	"golang.org/x/tools/go/ssa"
)

type cval struct {
	kind  string // int bool bytes str err nil struct
	i     int64
	w     int // bit width for fixed-width unsigned values, 0 = mathematical int
	b     bool
	bytes []byte
	s     string
	lit   bool
	f     map[string]cval
}

type cenv struct {
	e     *Engine
	fn    *ssa.Function
	vars  map[string]cval
	old   map[string]cval
	bound int64 // quantifier range
	depth int
}

type evalErr string

func efail(f string, a ...interface{}) { panic(evalErr(fmt.Sprintf(f, a...))) }

func fromJSON(v interface{}) cval {
	switch x := v.(type) {
	case nil:
		return cval{kind: "nil"}
	case bool:
		return cval{kind: "bool", b: x}
	case float64:
		return cval{kind: "int", i: int64(x)}
	case string:
		return cval{kind: "str", s: x}
	case map[string]interface{}:
		if bs, ok := x["bytes"]; ok {
			l, _ := bs.([]interface{})
			out := make([]byte, len(l))
			for i, e := range l {
				f, _ := e.(float64)
				out[i] = byte(f)
			}
			return cval{kind: "bytes", bytes: out}
		}
		if e, ok := x["error"]; ok {
			s, _ := e.(string)
			return cval{kind: "err", s: s}
		}
		f := map[string]cval{}
		for k, e := range x {
			f[k] = fromJSON(e)
		}
		return cval{kind: "struct", f: f}
	}
	return cval{kind: "nil"}
}

func (e *Engine) evalClause(fn *ssa.Function, c *Clause, dump map[string]interface{}) (res bool, err error) {
	defer func() {
		if r := recover(); r != nil {
			if ee, ok := r.(evalErr); ok {
				err = fmt.Errorf("%s", string(ee))
				return
			}
			panic(r)
		}
	}()
	env := &cenv{e: e, fn: fn, vars: map[string]cval{}, old: map[string]cval{}, bound: 8}
	for k, v := range dump {
		cv := fromJSON(v)
		if len(k) > 4 && k[:4] == "old." {
			env.old[k[4:]] = cv
			if cv.kind == "bytes" && int64(len(cv.bytes))+8 > env.bound {
				env.bound = int64(len(cv.bytes)) + 8
			}
			continue
		}
		env.vars[k] = cv
		if cv.kind == "bytes" && int64(len(cv.bytes))+8 > env.bound {
			env.bound = int64(len(cv.bytes)) + 8
		}
		if cv.kind == "str" && int64(len(cv.s))+8 > env.bound {
			env.bound = int64(len(cv.s)) + 8
		}
	}
	sig := fn.Signature
	for i := 0; i < sig.Results().Len(); i++ {
		if n := sig.Results().At(i).Name(); n != "" && n != "_" {
			env.vars[n] = env.vars[fmt.Sprintf("result%d", i)]
		}
	}
	if sig.Results().Len() == 1 {
		env.vars["result"] = env.vars["result0"]
	}
	// typed scalars: give parameters and results their widths
	for i, p := range fn.Params {
		_ = i
		if cv, ok := env.vars[p.Name()]; ok && cv.kind == "int" {
			cv.w = widthOf(e, p.Type().String())
			env.vars[p.Name()] = cv
		}
	}
	v := env.eval(c.Expr)
	if v.kind != "bool" {
		return false, fmt.Errorf("clause is not boolean")
	}
	return v.b, nil
}

func widthOf(e *Engine, ty string) int {
	switch ty {
	case "byte", "uint8":
		return 8
	case "uint16":
		return 16
	case "uint32":
		return 32
	case "uint64":
		return 64
	}
	return 0
}

func (env *cenv) with(name string, v cval) *cenv {
	n := *env
	n.vars = make(map[string]cval, len(env.vars)+1)
	for k, x := range env.vars {
		n.vars[k] = x
	}
	n.vars[name] = v
	return &n
}

func wrap(i int64, w int) int64 {
	if w == 0 || w >= 64 {
		return i
	}
	m := int64(1)<<uint(w) - 1
	return i & m
}

func (env *cenv) eval(e CE) cval {
	switch x := e.(type) {
	case *CLit:
		switch x.Kind {
		case token.INT:
			n, err := strconv.ParseInt(x.Val, 0, 64)
			if err != nil {
				efail("literal %s", x.Val)
			}
			return cval{kind: "int", i: n, lit: true}
		case token.CHAR:
			r, _, _, _ := strconv.UnquoteChar(x.Val[1:len(x.Val)-1], '\'')
			return cval{kind: "int", i: int64(r), lit: true}
		case token.STRING:
			s, _ := strconv.Unquote(x.Val)
			return cval{kind: "str", s: s}
		}
	case *CIdent:
		switch x.Name {
		case "true":
			return cval{kind: "bool", b: true}
		case "false":
			return cval{kind: "bool", b: false}
		case "nil":
			return cval{kind: "nil"}
		}
		if v, ok := env.vars[x.Name]; ok {
			return v
		}
		efail("unknown name %s", x.Name)
	case *CSel:
		if id, ok := x.X.(*CIdent); ok {
			if _, isVar := env.vars[id.Name]; !isVar {
				return cval{kind: "err", s: id.Name + "." + x.Sel}
			}
		}
		v := env.eval(x.X)
		if v.kind == "struct" {
			if f, ok := v.f[x.Sel]; ok {
				return f
			}
		}
		efail("selector %s", x)
	case *CIndex:
		v, i := env.eval(x.X), env.eval(x.I)
		switch v.kind {
		case "bytes":
			if i.i < 0 || i.i >= int64(len(v.bytes)) {
				// reading outside the slice: unspecified; treat as 0 (guards usually exclude it)
				return cval{kind: "int", i: 0, w: 8}
			}
			return cval{kind: "int", i: int64(v.bytes[i.i]), w: 8}
		case "str":
			if i.i < 0 || i.i >= int64(len(v.s)) {
				return cval{kind: "int", i: 0, w: 8}
			}
			return cval{kind: "int", i: int64(v.s[i.i]), w: 8}
		}
		efail("index on %s", v.kind)
	case *CSlice:
		v := env.eval(x.X)
		lo, hi := int64(0), int64(-1)
		if x.Lo != nil {
			lo = env.eval(x.Lo).i
		}
		switch v.kind {
		case "bytes":
			hi = int64(len(v.bytes))
			if x.Hi != nil {
				hi = env.eval(x.Hi).i
			}
			if lo < 0 || hi > int64(len(v.bytes)) || lo > hi {
				efail("slice out of range in clause")
			}
			return cval{kind: "bytes", bytes: v.bytes[lo:hi]}
		case "str":
			hi = int64(len(v.s))
			if x.Hi != nil {
				hi = env.eval(x.Hi).i
			}
			if lo < 0 || hi > int64(len(v.s)) || lo > hi {
				efail("slice out of range in clause")
			}
			return cval{kind: "str", s: v.s[lo:hi]}
		}
		efail("slice of %s", v.kind)
	case *CUn:
		v := env.eval(x.X)
		switch x.Op {
		case "!":
			return cval{kind: "bool", b: !v.b}
		case "-":
			return cval{kind: "int", i: wrap(-v.i, v.w), w: v.w, lit: v.lit}
		}
	case *CBin:
		return env.bin(x)
	case *CQuant:
		return env.quant(x, 0, env)
	case *CCall:
		return env.call(x)
	}
	efail("cannot evaluate %s", e)
	return cval{}
}

func (env *cenv) quant(x *CQuant, idx int, cur *cenv) cval {
	if idx == len(x.Vars) {
		return cur.eval(x.Body)
	}
	v := x.Vars[idx]
	lo, hi := int64(-3), env.bound
	w := widthOf(env.e, v.Type)
	if w == 8 {
		lo, hi = 0, 256
	} else if w != 0 {
		efail("quantifier over %s", v.Type)
	} else if v.Type != "int" {
		efail("quantifier over %s", v.Type)
	}
	for k := lo; k < hi; k++ {
		r := env.quant(x, idx+1, cur.with(v.Name, cval{kind: "int", i: k, w: w}))
		if x.Forall && !r.b {
			return cval{kind: "bool", b: false}
		}
		if !x.Forall && r.b {
			return cval{kind: "bool", b: true}
		}
	}
	return cval{kind: "bool", b: x.Forall}
}

func (env *cenv) bin(x *CBin) cval {
	switch x.Op {
	case "&&":
		l := env.eval(x.L)
		if !l.b {
			return cval{kind: "bool", b: false}
		}
		return cval{kind: "bool", b: env.eval(x.R).b}
	case "||":
		l := env.eval(x.L)
		if l.b {
			return cval{kind: "bool", b: true}
		}
		return cval{kind: "bool", b: env.eval(x.R).b}
	case "==>":
		l := env.eval(x.L)
		if !l.b {
			return cval{kind: "bool", b: true}
		}
		return cval{kind: "bool", b: env.eval(x.R).b}
	case "<==>":
		return cval{kind: "bool", b: env.eval(x.L).b == env.eval(x.R).b}
	}
	a, b := env.eval(x.L), env.eval(x.R)
	if x.Op == "==" || x.Op == "!=" {
		eq := false
		switch {
		case a.kind == "nil" || b.kind == "nil":
			o := a
			if a.kind == "nil" {
				o = b
			}
			switch o.kind {
			case "nil":
				eq = true
			case "bytes":
				eq = o.bytes == nil
			default:
				eq = false
			}
		case a.kind == "err" && b.kind == "err":
			eq = a.s == b.s
		case a.kind == "int" && b.kind == "int":
			eq = a.i == b.i
		case a.kind == "bool" && b.kind == "bool":
			eq = a.b == b.b
		case a.kind == "str" && b.kind == "str":
			eq = a.s == b.s
		default:
			efail("comparison of %s and %s", a.kind, b.kind)
		}
		if x.Op == "!=" {
			eq = !eq
		}
		return cval{kind: "bool", b: eq}
	}
	if a.kind != "int" || b.kind != "int" {
		if a.kind == "str" && b.kind == "str" && x.Op == "+" {
			return cval{kind: "str", s: a.s + b.s}
		}
		efail("operator %s on %s, %s", x.Op, a.kind, b.kind)
	}
	w := a.w
	if a.lit && !b.lit {
		w = b.w
	}
	if x.Op == "<<" || x.Op == ">>" {
		w = a.w
	} else if !a.lit && !b.lit && a.w != b.w {
		w = 0 // mixed: mathematical
	}
	switch x.Op {
	case "<":
		return cval{kind: "bool", b: a.i < b.i}
	case "<=":
		return cval{kind: "bool", b: a.i <= b.i}
	case ">":
		return cval{kind: "bool", b: a.i > b.i}
	case ">=":
		return cval{kind: "bool", b: a.i >= b.i}
	}
	var r int64
	switch x.Op {
	case "+":
		r = a.i + b.i
	case "-":
		r = a.i - b.i
	case "*":
		r = a.i * b.i
	case "/":
		if b.i == 0 {
			efail("division by zero in clause")
		}
		r = a.i / b.i
	case "%":
		if b.i == 0 {
			efail("division by zero in clause")
		}
		r = a.i % b.i
	case "&":
		r = a.i & b.i
	case "|":
		r = a.i | b.i
	case "^":
		r = a.i ^ b.i
	case "&^":
		r = a.i &^ b.i
	case "<<":
		if b.i >= 64 {
			r = 0
		} else {
			r = a.i << uint(b.i)
		}
	case ">>":
		if b.i >= 64 {
			r = 0
		} else {
			r = a.i >> uint(b.i)
		}
	default:
		efail("operator %s", x.Op)
	}
	return cval{kind: "int", i: wrap(r, w), w: w, lit: a.lit && b.lit}
}

func (env *cenv) call(x *CCall) cval {
	id, ok := x.Fun.(*CIdent)
	if !ok {
		efail("call %s", x)
	}
	switch id.Name {
	case "old":
		n := *env
		n.vars = map[string]cval{}
		for k, v := range env.vars {
			n.vars[k] = v
		}
		for k, v := range env.old {
			n.vars[k] = v
		}
		return n.eval(x.Args[0])
	case "len":
		v := env.eval(x.Args[0])
		switch v.kind {
		case "bytes":
			return cval{kind: "int", i: int64(len(v.bytes))}
		case "str":
			return cval{kind: "int", i: int64(len(v.s))}
		}
		efail("len of %s", v.kind)
	case "ite":
		if env.eval(x.Args[0]).b {
			return env.eval(x.Args[1])
		}
		return env.eval(x.Args[2])
	case "disjoint":
		return cval{kind: "bool", b: true}
	case "int":
		v := env.eval(x.Args[0])
		v.w = 0
		return v
	case "byte", "uint8":
		v := env.eval(x.Args[0])
		return cval{kind: "int", i: wrap(v.i, 8), w: 8}
	case "uint16":
		v := env.eval(x.Args[0])
		return cval{kind: "int", i: wrap(v.i, 16), w: 16}
	case "string":
		v := env.eval(x.Args[0])
		if v.kind == "bytes" {
			return cval{kind: "str", s: string(v.bytes)}
		}
		return v
	case "inset":
		s, c := env.eval(x.Args[0]), env.eval(x.Args[1])
		for i := 0; i < len(s.s); i++ {
			if int64(s.s[i]) == c.i {
				return cval{kind: "bool", b: true}
			}
		}
		return cval{kind: "bool", b: false}
	}
	if env.fn != nil && env.fn.Pkg != nil {
		if sp := env.e.specFor(env.fn.Pkg.Pkg, id.Name); sp != nil && sp.c.Body != nil {
			if env.depth > 4000 {
				efail("spec recursion too deep")
			}
			n := &cenv{e: env.e, fn: env.fn, vars: map[string]cval{}, old: env.old, bound: env.bound, depth: env.depth + 1}
			for i, p := range sp.c.Params {
				v := env.eval(x.Args[i])
				if v.kind == "int" {
					v.w = widthOf(env.e, p.Type)
					v.i = wrap(v.i, v.w)
					v.lit = false
				}
				n.vars[p.Name] = v
			}
			r := n.eval(sp.c.Body)
			if r.kind == "int" {
				r.w = widthOf(env.e, sp.c.Ret)
				r.i = wrap(r.i, r.w)
				r.lit = false
			}
			return r
		}
	}
	efail("unknown function %s", id.Name)
	return cval{}
}
