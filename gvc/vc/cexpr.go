package vc

// Contract expression language: Go expression syntax extended with
//   a ==> b, a <==> b, forall x T, y U :: e, exists x T :: e, old(e),
//   ite(c,a,b), chains 0 <= i < n, x.(T), typeof(x) == T.
// Own Pratt parser over go/scanner tokens.

import (
	"fmt"
	"go/scanner"
	"go/token"
	"strings"
)

type CE interface{ String() string }

type CLit struct {
	Kind token.Token // INT CHAR STRING
	Val  string
}
type CIdent struct{ Name string }
type CBin struct {
	Op   string
	L, R CE
}
type CUn struct {
	Op string
	X  CE
}
type CCall struct {
	Fun  CE
	Args []CE
}
type CSel struct {
	X   CE
	Sel string
}
type CIndex struct{ X, I CE }
type CSlice struct{ X, Lo, Hi CE }
type CVar struct{ Name, Type string }
type CQuant struct {
	Forall bool
	Vars   []CVar
	Body   CE
}
type CTypeAssert struct {
	X    CE
	Type string
}
type CTypeLit struct{ Type string } // only as operand of typeof(x) == T / composite

func (x *CLit) String() string   { return x.Val }
func (x *CIdent) String() string { return x.Name }
func (x *CBin) String() string   { return "(" + x.L.String() + " " + x.Op + " " + x.R.String() + ")" }
func (x *CUn) String() string    { return x.Op + x.X.String() }
func (x *CCall) String() string {
	var a []string
	for _, e := range x.Args {
		a = append(a, e.String())
	}
	return x.Fun.String() + "(" + strings.Join(a, ", ") + ")"
}
func (x *CSel) String() string   { return x.X.String() + "." + x.Sel }
func (x *CIndex) String() string { return x.X.String() + "[" + x.I.String() + "]" }
func (x *CSlice) String() string {
	lo, hi := "", ""
	if x.Lo != nil {
		lo = x.Lo.String()
	}
	if x.Hi != nil {
		hi = x.Hi.String()
	}
	return x.X.String() + "[" + lo + ":" + hi + "]"
}
func (x *CQuant) String() string {
	q := "exists"
	if x.Forall {
		q = "forall"
	}
	var vs []string
	for _, v := range x.Vars {
		vs = append(vs, v.Name+" "+v.Type)
	}
	return "(" + q + " " + strings.Join(vs, ", ") + " :: " + x.Body.String() + ")"
}
func (x *CTypeAssert) String() string { return x.X.String() + ".(" + x.Type + ")" }
func (x *CTypeLit) String() string    { return x.Type }

type ctok struct {
	tok token.Token
	lit string
	pos int // byte offset
	end int
}

type cparser struct {
	src  string
	toks []ctok
	i    int
}

func ParseCExpr(src string) (e CE, err error) {
	defer func() {
		if r := recover(); r != nil {
			if pe, ok := r.(parseErr); ok {
				err = fmt.Errorf("contract expression %q: %s", src, string(pe))
				return
			}
			panic(r)
		}
	}()
	p := &cparser{src: src}
	p.lex()
	e = p.expr()
	if p.peek().tok != token.EOF {
		p.fail("unexpected %q", p.peek().lit)
	}
	return e, nil
}

type parseErr string

func (p *cparser) fail(f string, a ...interface{}) {
	panic(parseErr(fmt.Sprintf(f, a...) + fmt.Sprintf(" at token %d", p.i)))
}

func (p *cparser) lex() {
	fset := token.NewFileSet()
	file := fset.AddFile("", fset.Base(), len(p.src))
	var s scanner.Scanner
	s.Init(file, []byte(p.src), nil, 0)
	for {
		pos, tok, lit := s.Scan()
		if tok == token.EOF {
			break
		}
		if tok == token.SEMICOLON && lit == "\n" {
			continue
		}
		off := file.Offset(pos)
		l := lit
		if l == "" {
			l = tok.String()
		}
		p.toks = append(p.toks, ctok{tok, l, off, off + len(l)})
	}
	// merge "==" ">" into "==>" and "<" "==" ">" / "<=" "=" ">" into "<==>"
	var out []ctok
	for i := 0; i < len(p.toks); i++ {
		t := p.toks[i]
		adj := func(a, b ctok) bool { return a.end == b.pos }
		// "<==>" scans as "<=" "=" ">"
		if t.tok == token.LEQ && i+2 < len(p.toks) && p.toks[i+1].tok == token.ASSIGN && p.toks[i+2].tok == token.GTR && adj(t, p.toks[i+1]) && adj(p.toks[i+1], p.toks[i+2]) {
			out = append(out, ctok{token.ILLEGAL, "<==>", t.pos, p.toks[i+2].end})
			i += 2
			continue
		}
		if t.tok == token.EQL && i+1 < len(p.toks) && p.toks[i+1].tok == token.GTR && adj(t, p.toks[i+1]) {
			out = append(out, ctok{token.ILLEGAL, "==>", t.pos, p.toks[i+1].end})
			i++
			continue
		}
		// "::" scans as ":" ":"
		if t.tok == token.COLON && i+1 < len(p.toks) && p.toks[i+1].tok == token.COLON && adj(t, p.toks[i+1]) {
			out = append(out, ctok{token.ILLEGAL, "::", t.pos, p.toks[i+1].end})
			i++
			continue
		}
		out = append(out, t)
	}
	p.toks = out
}

func (p *cparser) peek() ctok {
	if p.i < len(p.toks) {
		return p.toks[p.i]
	}
	return ctok{tok: token.EOF, lit: "EOF"}
}
func (p *cparser) next() ctok { t := p.peek(); p.i++; return t }
func (p *cparser) accept(lit string) bool {
	if p.peek().lit == lit && p.peek().tok != token.STRING && p.peek().tok != token.CHAR {
		p.i++
		return true
	}
	return false
}
func (p *cparser) expect(lit string) {
	if !p.accept(lit) {
		p.fail("expected %q, found %q", lit, p.peek().lit)
	}
}

func (p *cparser) expr() CE {
	t := p.peek()
	if t.tok == token.IDENT && (t.lit == "forall" || t.lit == "exists") {
		p.next()
		q := &CQuant{Forall: t.lit == "forall"}
		for {
			name := p.next()
			if name.tok != token.IDENT {
				p.fail("quantifier variable expected")
			}
			ty := p.typeText("::", ",")
			q.Vars = append(q.Vars, CVar{name.lit, ty})
			if p.accept(",") {
				continue
			}
			break
		}
		p.expect("::")
		q.Body = p.expr()
		return q
	}
	return p.iff()
}

// typeText consumes tokens of a type expression until one of the stop
// literals at bracket depth 0.
func (p *cparser) typeText(stops ...string) string {
	depth := 0
	start := p.peek().pos
	end := start
	for {
		t := p.peek()
		if t.tok == token.EOF {
			break
		}
		if depth == 0 {
			stop := false
			for _, s := range stops {
				if t.lit == s {
					stop = true
				}
			}
			if stop {
				break
			}
		}
		switch t.lit {
		case "(", "[", "{":
			depth++
		case ")", "]", "}":
			depth--
		}
		if depth < 0 {
			break
		}
		end = t.end
		p.next()
	}
	return strings.TrimSpace(p.src[start:end])
}

func (p *cparser) iff() CE {
	l := p.imp()
	for p.accept("<==>") {
		r := p.imp()
		l = &CBin{"<==>", l, r}
	}
	return l
}
func (p *cparser) imp() CE {
	l := p.or()
	if p.accept("==>") {
		var r CE
		t := p.peek()
		if t.tok == token.IDENT && (t.lit == "forall" || t.lit == "exists") {
			r = p.expr()
		} else {
			r = p.imp()
		}
		return &CBin{"==>", l, r}
	}
	return l
}
func (p *cparser) or() CE {
	l := p.and()
	for p.accept("||") {
		l = &CBin{"||", l, p.and()}
	}
	return l
}
func (p *cparser) and() CE {
	l := p.cmp()
	for p.accept("&&") {
		l = &CBin{"&&", l, p.cmp()}
	}
	return l
}

var cmpOps = map[string]bool{"==": true, "!=": true, "<": true, "<=": true, ">": true, ">=": true}

func (p *cparser) cmp() CE {
	l := p.add()
	var res CE
	for cmpOps[p.peek().lit] && p.peek().tok != token.STRING {
		op := p.next().lit
		r := p.add()
		c := &CBin{op, l, r}
		if res == nil {
			res = c
		} else {
			res = &CBin{"&&", res, c}
		}
		l = r
	}
	if res == nil {
		return l
	}
	return res
}

var addOps = map[string]bool{"+": true, "-": true, "|": true, "^": true}
var mulOps = map[string]bool{"*": true, "/": true, "%": true, "<<": true, ">>": true, "&": true, "&^": true}

func (p *cparser) add() CE {
	l := p.mul()
	for addOps[p.peek().lit] && p.peek().tok != token.STRING && p.peek().tok != token.CHAR {
		op := p.next().lit
		l = &CBin{op, l, p.mul()}
	}
	return l
}
func (p *cparser) mul() CE {
	l := p.unary()
	for mulOps[p.peek().lit] && p.peek().tok != token.STRING && p.peek().tok != token.CHAR {
		op := p.next().lit
		l = &CBin{op, l, p.unary()}
	}
	return l
}
func (p *cparser) unary() CE {
	t := p.peek()
	if t.tok != token.STRING && t.tok != token.CHAR && (t.lit == "!" || t.lit == "-") {
		p.next()
		return &CUn{t.lit, p.unary()}
	}
	if t.tok == token.MUL {
		// pointer dereference *p
		p.next()
		return &CUn{"*", p.unary()}
	}
	return p.postfix()
}
func (p *cparser) postfix() CE {
	x := p.primary()
	for {
		switch {
		case p.accept("."):
			if p.accept("(") {
				ty := p.typeText(")")
				p.expect(")")
				x = &CTypeAssert{x, ty}
				continue
			}
			id := p.next()
			if id.tok != token.IDENT && !id.tok.IsKeyword() {
				p.fail("selector expected")
			}
			x = &CSel{x, id.lit}
		case p.accept("["):
			var lo, hi CE
			if p.peek().lit != ":" {
				lo = p.expr()
			}
			if p.accept(":") {
				if p.peek().lit != "]" {
					hi = p.expr()
				}
				p.expect("]")
				x = &CSlice{x, lo, hi}
			} else {
				p.expect("]")
				x = &CIndex{x, lo}
			}
		case p.peek().lit == "(" && p.peek().tok == token.LPAREN:
			p.next()
			var args []CE
			for p.peek().lit != ")" {
				args = append(args, p.expr())
				if !p.accept(",") {
					break
				}
			}
			p.expect(")")
			x = &CCall{x, args}
		default:
			return x
		}
	}
}
func (p *cparser) primary() CE {
	t := p.next()
	switch t.tok {
	case token.INT, token.CHAR, token.STRING:
		return &CLit{t.tok, t.lit}
	case token.IDENT:
		if t.lit == "forall" || t.lit == "exists" {
			p.i--
			return p.expr()
		}
		return &CIdent{t.lit}
	case token.LPAREN:
		e := p.expr()
		p.expect(")")
		return e
	case token.LBRACK:
		// a type literal like []byte used with typeof
		p.i--
		ty := p.typeText(")", ",", "==", "!=", "&&", "||", "==>")
		return &CTypeLit{ty}
	}
	p.fail("unexpected token %q", t.lit)
	return nil
}
