package vc

// Parser for contract files (/repo/<pkg>/contracts_verif.go). Every contract
// line starts with "//@". See DESIGN.md Appendix A.

import (
	"fmt"
	"os"
	"regexp"
	"strconv"
	"strings"
)

type Clause struct {
	Kind string // requires ensures invariant decreases assert panics
	Tags []string
	Text string
	Expr CE
	File string
	Line int
}

func (c *Clause) HasTag(t string) bool {
	for _, x := range c.Tags {
		if x == t {
			return true
		}
	}
	return false
}

type LoopC struct {
	Ord  int
	Invs []*Clause
	Decr *Clause
	// Exhaustive: the loop is left only through its header (the range is
	// exhausted / the condition fails): no break, return or goto out of the body
	Exhaustive     bool
	ExhaustiveTags []string
}

// WireC pins the XML mapping of a struct field that encoding/xml reads from a
// struct tag: wire[P] <Type.Field | func:Name#k.Field> <kind> [name]
// kind: attr chardata innerxml element any; name: "local" or "space local".
type WireC struct {
	Tags  []string
	Ref   string
	Kind  string
	Name  string
	File  string
	Line  int
}

type CallsiteC struct {
	Callee   string
	Optional bool // no error when the function has no such call
	Ord    int // 1-based among calls to Callee in source order
	Assert []*Clause
	Assume []*Clause
	Before []GhostAssign
	After  []GhostAssign
	Ignore string // noswallow: reason the error result is deliberately ignored
	// Preserves: expressions (maps: with their contents) assumed unchanged by
	// the call - an explicit frame assumption, reported in the evidence
	Preserves []GhostAssign
	// Havoc: lvalues given an arbitrary value after the call (interference by
	// other goroutines up to the acquisition of a lock)
	Havoc []string
}

type GhostAssign struct {
	Name string
	Text string
	Expr CE
}

type FuncC struct {
	Ref           string // as written
	Kind          string // func extern funcfield
	Requires      []*Clause
	Ensures       []*Clause
	Pure          bool
	HasModifies   bool
	Modifies      []string
	Loops         map[int]*LoopC
	Callsites     []*CallsiteC
	NoSwallow     bool
	// lockbalanced: every exit leaves as many sync locks held as the entry found
	LockBalanced     bool
	LockBalancedTags []string
	NoSwallowTags []string
	// cancellable: every blocking channel operation of the function is a
	// select that also waits for cancellation (ctx.Done() or a listed field)
	Cancellable     bool
	CancellableTags []string
	CancelFields    []string
	AssumePure    bool            // purity is assumed, not inferred from the body
	Nullable      map[string]bool // pointer parameters that may be nil
	Hints         map[string]bool // proof hints (e.g. appendcopy)
	Ghosts        []GhostDecl
	Abstracts     []string
	MayPanic      bool // explicit panic instructions allowed (documented API panics)
	File          string
	Line          int
}

type GhostDecl struct {
	Name  string
	Type  string
	Init  string
	InitE CE
}

type SpecC struct {
	Name   string
	Params []CVar
	Ret    string
	Body   CE
	Text   string
	Decr   CE
	File   string
	Line   int
}

type LemmaC struct {
	Name     string
	Tags     []string
	Params   []CVar
	Requires []*Clause
	Ensures  []*Clause
	Induct   string
	Uses     []string
	Patterns []CE
	PatText  string
	File     string
	Line     int
}

type AxiomC struct {
	Name string
	Text string
	Expr CE
	File string
	Line int
}

type TypeInvC struct {
	Type    string // T or *T
	Assumed bool
	Text    string
	Expr    CE
	Reason  string
	File    string
	Line    int
}

type CFile struct {
	Path     string
	TypeInvs []*TypeInvC
	Specs    []*SpecC
	Funcs    []*FuncC
	Lemmas   []*LemmaC
	Axioms   []*AxiomC
	NoPanic  []string
	Wires    []*WireC
}

var clauseRe = regexp.MustCompile(`^(requires|relies|ensures|defines|invariant|decreases|assert|assume|panics)(\[[A-Za-z0-9,:_-]+\])?\s+(.*)$`)
var specRe = regexp.MustCompile(`^spec\s+([A-Za-z_][A-Za-z0-9_]*)\s*\(([^)]*)\)\s*([^=]+?)\s*(=\s*(.*))?$`)
var lemmaRe = regexp.MustCompile(`^lemma(\[[A-Za-z0-9,]+\])?\s+([A-Za-z_][A-Za-z0-9_]*)\s*\(([^)]*)\)\s*(induct\s+([A-Za-z_][A-Za-z0-9_]*))?\s*$`)

var topKeywords = []string{"wire ", "wire[", "typeinv ", "assume-typeinv ", "spec ", "axiom ", "lemma ", "lemma[", "func ", "extern ", "funcfield ", "functype ", "nopanic "}
var subKeywords = []string{"requires", "relies", "cancellable", "ensures", "defines", "invariant", "decreases", "assert", "assume", "panics", "modifies", "pure", "loop ", "callsite ", "noswallow", "lockbalanced", "ghost ", "abstracts ", "maypanic", "before:", "after:", "uses ", "ignore ", "pattern ", "preserves ", "nullable ", "havoc ", "hint ", "exhaustive"}

func startsWithAny(s string, ks []string) bool {
	for _, k := range ks {
		if strings.HasPrefix(s, k) {
			return true
		}
	}
	return false
}

func parseParams(s string) ([]CVar, error) {
	s = strings.TrimSpace(s)
	if s == "" {
		return nil, nil
	}
	var out []CVar
	for _, part := range strings.Split(s, ",") {
		part = strings.TrimSpace(part)
		i := strings.IndexAny(part, " \t")
		if i < 0 {
			return nil, fmt.Errorf("parameter %q needs a type", part)
		}
		out = append(out, CVar{part[:i], strings.TrimSpace(part[i+1:])})
	}
	return out, nil
}

func parseTags(s string) []string {
	s = strings.Trim(s, "[]")
	if s == "" {
		return nil
	}
	return strings.Split(s, ",")
}

func ParseContractFile(path string) (*CFile, error) {
	data, err := os.ReadFile(path)
	if err != nil {
		return nil, err
	}
	cf := &CFile{Path: path}
	type ln struct {
		text string
		no   int
	}
	var lines []ln
	for i, l := range strings.Split(string(data), "\n") {
		t := strings.TrimSpace(l)
		if !strings.HasPrefix(t, "//@") {
			continue
		}
		t = strings.TrimSpace(strings.TrimPrefix(t, "//@"))
		if t == "" || strings.HasPrefix(t, "#") {
			continue
		}
		// continuation?
		if len(lines) > 0 && !startsWithAny(t, topKeywords) && !startsWithAny(t, subKeywords) {
			lines[len(lines)-1].text += " " + t
			continue
		}
		lines = append(lines, ln{t, i + 1})
	}
	var curF *FuncC
	var curL *LemmaC
	var curLoop *LoopC
	var curCS *CallsiteC
	errf := func(l ln, f string, a ...interface{}) error {
		return fmt.Errorf("%s:%d: %s", path, l.no, fmt.Sprintf(f, a...))
	}
	mkClause := func(l ln) (*Clause, error) {
		m := clauseRe.FindStringSubmatch(l.text)
		if m == nil {
			return nil, errf(l, "malformed clause %q", l.text)
		}
		e, err := ParseCExpr(m[3])
		if err != nil {
			return nil, errf(l, "%v", err)
		}
		return &Clause{Kind: m[1], Tags: parseTags(m[2]), Text: normText(m[3]), Expr: e, File: path, Line: l.no}, nil
	}
	for _, l := range lines {
		t := l.text
		switch {
		case strings.HasPrefix(t, "spec "):
			m := specRe.FindStringSubmatch(t)
			if m == nil {
				return nil, errf(l, "malformed spec")
			}
			ps, err := parseParams(m[2])
			if err != nil {
				return nil, errf(l, "%v", err)
			}
			sp := &SpecC{Name: m[1], Params: ps, Ret: strings.TrimSpace(m[3]), File: path, Line: l.no}
			if m[5] != "" {
				body := m[5]
				if i := strings.Index(body, " decreases "); i >= 0 {
					d, err := ParseCExpr(body[i+len(" decreases "):])
					if err != nil {
						return nil, errf(l, "%v", err)
					}
					sp.Decr = d
					body = body[:i]
				}
				e, err := ParseCExpr(body)
				if err != nil {
					return nil, errf(l, "%v", err)
				}
				sp.Body = e
				sp.Text = body
			}
			cf.Specs = append(cf.Specs, sp)
			curF, curL, curLoop, curCS = nil, nil, nil, nil
		case strings.HasPrefix(t, "wire ") || strings.HasPrefix(t, "wire["):
			rest := strings.TrimPrefix(t, "wire")
			var tags []string
			if strings.HasPrefix(rest, "[") {
				i := strings.Index(rest, "]")
				if i < 0 {
					return nil, errf(l, "wire: missing ]")
				}
				tags = parseTags(rest[:i+1])
				rest = rest[i+1:]
			}
			fs := strings.Fields(rest)
			if len(fs) < 2 {
				return nil, errf(l, "wire: expected <ref> <kind> [name]")
			}
			switch fs[1] {
			case "attr", "chardata", "innerxml", "element", "any":
			default:
				return nil, errf(l, "wire: unknown kind %q", fs[1])
			}
			cf.Wires = append(cf.Wires, &WireC{Tags: tags, Ref: fs[0], Kind: fs[1], Name: strings.Join(fs[2:], " "), File: path, Line: l.no})
			curF, curL, curLoop, curCS = nil, nil, nil, nil
		case strings.HasPrefix(t, "typeinv "), strings.HasPrefix(t, "assume-typeinv "):
			assumed := strings.HasPrefix(t, "assume-")
			rest := t[strings.Index(t, " ")+1:]
			i := strings.Index(rest, ":")
			if i < 0 {
				return nil, errf(l, "typeinv needs TYPE: expr")
			}
			e, err := ParseCExpr(rest[i+1:])
			if err != nil {
				return nil, errf(l, "%v", err)
			}
			cf.TypeInvs = append(cf.TypeInvs, &TypeInvC{Type: strings.TrimSpace(rest[:i]), Assumed: assumed, Text: normText(rest[i+1:]), Expr: e, File: path, Line: l.no})
			curF, curL, curLoop, curCS = nil, nil, nil, nil
		case strings.HasPrefix(t, "axiom "):
			rest := strings.TrimPrefix(t, "axiom ")
			i := strings.Index(rest, ":")
			if i < 0 {
				return nil, errf(l, "axiom needs name:")
			}
			e, err := ParseCExpr(rest[i+1:])
			if err != nil {
				return nil, errf(l, "%v", err)
			}
			cf.Axioms = append(cf.Axioms, &AxiomC{Name: strings.TrimSpace(rest[:i]), Text: normText(rest[i+1:]), Expr: e, File: path, Line: l.no})
			curF, curL, curLoop, curCS = nil, nil, nil, nil
		case strings.HasPrefix(t, "lemma"):
			m := lemmaRe.FindStringSubmatch(t)
			if m == nil {
				return nil, errf(l, "malformed lemma header")
			}
			ps, err := parseParams(m[3])
			if err != nil {
				return nil, errf(l, "%v", err)
			}
			curL = &LemmaC{Name: m[2], Tags: parseTags(m[1]), Params: ps, Induct: m[5], File: path, Line: l.no}
			cf.Lemmas = append(cf.Lemmas, curL)
			curF, curLoop, curCS = nil, nil, nil
		case strings.HasPrefix(t, "func "), strings.HasPrefix(t, "extern "), strings.HasPrefix(t, "funcfield "), strings.HasPrefix(t, "functype "):
			i := strings.Index(t, " ")
			curF = &FuncC{Kind: t[:i], Ref: strings.TrimSpace(t[i+1:]), Loops: map[int]*LoopC{}, File: path, Line: l.no}
			cf.Funcs = append(cf.Funcs, curF)
			curL, curLoop, curCS = nil, nil, nil
		case strings.HasPrefix(t, "nopanic "):
			cf.NoPanic = append(cf.NoPanic, strings.TrimSpace(strings.TrimPrefix(t, "nopanic ")))
			curF, curL, curLoop, curCS = nil, nil, nil, nil
		case strings.HasPrefix(t, "pattern "):
			if curL == nil {
				return nil, errf(l, "pattern outside lemma")
			}
			curL.PatText = strings.TrimSpace(strings.TrimPrefix(t, "pattern "))
			for _, part := range splitTop(curL.PatText) {
				pe, err := ParseCExpr(part)
				if err != nil {
					return nil, errf(l, "%v", err)
				}
				curL.Patterns = append(curL.Patterns, pe)
			}
		case strings.HasPrefix(t, "uses "):
			if curL == nil {
				return nil, errf(l, "uses outside lemma")
			}
			curL.Uses = append(curL.Uses, strings.TrimSpace(strings.TrimPrefix(t, "uses ")))
		case t == "pure" || t == "assume-pure":
			if curF == nil {
				return nil, errf(l, "pure outside func")
			}
			curF.Pure = true
			curF.AssumePure = t == "assume-pure"
		case t == "exhaustive" || strings.HasPrefix(t, "exhaustive["):
			if curLoop == nil {
				return nil, errf(l, "exhaustive outside loop")
			}
			curLoop.Exhaustive = true
			curLoop.ExhaustiveTags = parseTags(strings.TrimPrefix(t, "exhaustive"))
		case strings.HasPrefix(t, "hint "):
			if curF == nil {
				return nil, errf(l, "hint outside func")
			}
			if curF.Hints == nil {
				curF.Hints = map[string]bool{}
			}
			curF.Hints[strings.TrimSpace(strings.TrimPrefix(t, "hint "))] = true
		case strings.HasPrefix(t, "nullable "):
			if curF == nil {
				return nil, errf(l, "nullable outside func")
			}
			if curF.Nullable == nil {
				curF.Nullable = map[string]bool{}
			}
			for _, n := range splitTop(strings.TrimPrefix(t, "nullable ")) {
				curF.Nullable[n] = true
			}
		case t == "noswallow" || strings.HasPrefix(t, "noswallow["):
			if curF == nil {
				return nil, errf(l, "noswallow outside func")
			}
			curF.NoSwallow = true
			curF.NoSwallowTags = parseTags(strings.TrimPrefix(t, "noswallow"))
		case t == "lockbalanced" || strings.HasPrefix(t, "lockbalanced["):
			if curF == nil {
				return nil, errf(l, "lockbalanced outside func")
			}
			curF.LockBalanced = true
			curF.LockBalancedTags = parseTags(strings.TrimPrefix(t, "lockbalanced"))
		case t == "cancellable" || strings.HasPrefix(t, "cancellable[") || strings.HasPrefix(t, "cancellable "):
			if curF == nil {
				return nil, errf(l, "cancellable outside func")
			}
			curF.Cancellable = true
			rest := strings.TrimPrefix(t, "cancellable")
			if strings.HasPrefix(rest, "[") {
				i := strings.Index(rest, "]")
				if i < 0 {
					return nil, errf(l, "cancellable: missing ]")
				}
				curF.CancellableTags = parseTags(rest[:i+1])
				rest = rest[i+1:]
			}
			for _, w := range strings.Fields(rest) {
				if !strings.HasPrefix(w, "field:") {
					return nil, errf(l, "cancellable: expected field:<name>, got %q", w)
				}
				curF.CancelFields = append(curF.CancelFields, strings.TrimPrefix(w, "field:"))
			}
		case t == "maypanic":
			if curF == nil {
				return nil, errf(l, "maypanic outside func")
			}
			curF.MayPanic = true
		case strings.HasPrefix(t, "abstracts "):
			if curF == nil {
				return nil, errf(l, "abstracts outside func")
			}
			for _, a := range strings.Split(strings.TrimPrefix(t, "abstracts "), ",") {
				curF.Abstracts = append(curF.Abstracts, strings.TrimSpace(a))
			}
		case strings.HasPrefix(t, "modifies"):
			if curF == nil {
				return nil, errf(l, "modifies outside func")
			}
			curF.HasModifies = true
			for _, a := range strings.Split(strings.TrimSpace(strings.TrimPrefix(t, "modifies")), ",") {
				if a = strings.TrimSpace(a); a != "" && a != "nothing" {
					curF.Modifies = append(curF.Modifies, a)
				}
			}
		case strings.HasPrefix(t, "ghost "):
			if curF == nil {
				return nil, errf(l, "ghost outside func")
			}
			rest := strings.TrimPrefix(t, "ghost ")
			g := GhostDecl{}
			if i := strings.Index(rest, "="); i >= 0 {
				g.Init = strings.TrimSpace(rest[i+1:])
				e, err := ParseCExpr(g.Init)
				if err != nil {
					return nil, errf(l, "%v", err)
				}
				g.InitE = e
				rest = rest[:i]
			}
			f := strings.Fields(rest)
			if len(f) != 2 {
				return nil, errf(l, "ghost NAME TYPE [= init]")
			}
			g.Name, g.Type = f[0], f[1]
			curF.Ghosts = append(curF.Ghosts, g)
		case strings.HasPrefix(t, "loop "):
			if curF == nil {
				return nil, errf(l, "loop outside func")
			}
			n, err := strconv.Atoi(strings.TrimSpace(strings.TrimPrefix(t, "loop ")))
			if err != nil {
				return nil, errf(l, "loop ordinal: %v", err)
			}
			curLoop = &LoopC{Ord: n}
			curF.Loops[n] = curLoop
			curCS = nil
		case strings.HasPrefix(t, "callsite "):
			if curF == nil {
				return nil, errf(l, "callsite outside func")
			}
			rest := strings.TrimSpace(strings.TrimPrefix(t, "callsite "))
			optional := false
			if strings.HasSuffix(rest, " optional") {
				// the call need not exist (its ghost updates then never happen)
				optional = true
				rest = strings.TrimSpace(strings.TrimSuffix(rest, " optional"))
			}
			ord := 1
			if i := strings.LastIndex(rest, "#"); i >= 0 {
				if rest[i+1:] == "*" {
					ord = 0 // every call to that callee
				} else {
					n, err := strconv.Atoi(rest[i+1:])
					if err != nil {
						return nil, errf(l, "callsite ordinal: %v", err)
					}
					ord = n
				}
				rest = rest[:i]
			}
			curCS = &CallsiteC{Callee: strings.TrimSpace(rest), Ord: ord, Optional: optional}
			curF.Callsites = append(curF.Callsites, curCS)
			curLoop = nil
		case strings.HasPrefix(t, "before:"), strings.HasPrefix(t, "after:"):
			if curCS == nil {
				return nil, errf(l, "ghost assignment outside callsite")
			}
			i := strings.Index(t, ":")
			rest := t[i+1:]
			j := strings.Index(rest, "=")
			if j < 0 {
				return nil, errf(l, "ghost assignment needs =")
			}
			e, err := ParseCExpr(rest[j+1:])
			if err != nil {
				return nil, errf(l, "%v", err)
			}
			ga := GhostAssign{Name: strings.TrimSpace(rest[:j]), Text: normText(rest[j+1:]), Expr: e}
			if t[:i] == "before" {
				curCS.Before = append(curCS.Before, ga)
			} else {
				curCS.After = append(curCS.After, ga)
			}
		case strings.HasPrefix(t, "havoc "):
			if curCS == nil {
				return nil, errf(l, "havoc outside callsite")
			}
			curCS.Havoc = append(curCS.Havoc, splitTop(strings.TrimPrefix(t, "havoc "))...)
		case strings.HasPrefix(t, "preserves "):
			if curCS == nil {
				return nil, errf(l, "preserves outside callsite")
			}
			for _, part := range splitTop(strings.TrimPrefix(t, "preserves ")) {
				e, err := ParseCExpr(part)
				if err != nil {
					return nil, errf(l, "%v", err)
				}
				curCS.Preserves = append(curCS.Preserves, GhostAssign{Text: normText(part), Expr: e})
			}
		case strings.HasPrefix(t, "ignore "):
			if curCS == nil {
				return nil, errf(l, "ignore outside callsite")
			}
			curCS.Ignore = strings.TrimSpace(strings.TrimPrefix(t, "ignore "))
		default:
			c, err := mkClause(l)
			if err != nil {
				return nil, err
			}
			switch {
			case curL != nil:
				switch c.Kind {
				case "requires":
					curL.Requires = append(curL.Requires, c)
				case "ensures":
					curL.Ensures = append(curL.Ensures, c)
				default:
					return nil, errf(l, "%s not allowed in lemma", c.Kind)
				}
			case curF == nil:
				return nil, errf(l, "clause outside func/lemma")
			case c.Kind == "invariant" || c.Kind == "decreases":
				if curLoop == nil {
					return nil, errf(l, "%s outside loop", c.Kind)
				}
				if c.Kind == "invariant" {
					curLoop.Invs = append(curLoop.Invs, c)
				} else {
					curLoop.Decr = c
				}
			case c.Kind == "assert":
				if curCS == nil {
					return nil, errf(l, "assert outside callsite")
				}
				curCS.Assert = append(curCS.Assert, c)
			case c.Kind == "assume":
				if curCS == nil {
					return nil, errf(l, "assume outside callsite")
				}
				curCS.Assume = append(curCS.Assume, c)
			case c.Kind == "requires" || c.Kind == "relies":
				// relies: a precondition that depends on the history of earlier
				// calls (rely/guarantee): assumed at entry, never asserted at
				// call sites, reported as an assumption in the evidence.
				curF.Requires = append(curF.Requires, c)
			case c.Kind == "ensures" || c.Kind == "panics" || c.Kind == "defines":
				curF.Ensures = append(curF.Ensures, c)
			}
		}
	}
	return cf, nil
}

var wsRe = regexp.MustCompile(`\s+`)

func normText(s string) string { return wsRe.ReplaceAllString(strings.TrimSpace(s), " ") }

// splitTop splits at commas outside parentheses/brackets.
func splitTop(s string) []string {
	var out []string
	d, start := 0, 0
	for i, c := range s {
		switch c {
		case '(', '[':
			d++
		case ')', ']':
			d--
		case ',':
			if d == 0 {
				out = append(out, strings.TrimSpace(s[start:i]))
				start = i + 1
			}
		}
	}
	return append(out, strings.TrimSpace(s[start:]))
}
