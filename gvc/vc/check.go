package vc

import (
	"bufio"
	"crypto/sha256"
	"encoding/json"
	"flag"
	"fmt"
	"os"
	"path/filepath"
	"sort"
	"strconv"
	"strings"
	"sync"
	"time"
)

type Finding struct {
	Property   string `json:"property"`
	Obligation string `json:"obligation"`
	Status     string `json:"status"` // open | fixed
	Commit     string `json:"commit,omitempty"`
	What       string `json:"what"`
}

func loadFindings(path string) []Finding {
	var out []Finding
	f, err := os.Open(path)
	if err != nil {
		return nil
	}
	defer f.Close()
	sc := bufio.NewScanner(f)
	sc.Buffer(make([]byte, 1<<20), 1<<20)
	for sc.Scan() {
		l := strings.TrimSpace(sc.Text())
		if l == "" || strings.HasPrefix(l, "#") {
			continue
		}
		var fd Finding
		if json.Unmarshal([]byte(l), &fd) == nil {
			out = append(out, fd)
		}
	}
	return out
}

// packagesForProperty: directories whose contract file mentions the property.
func packagesForProperty(repo, prop string) []string {
	var pats []string
	filepath.Walk(repo, func(p string, info os.FileInfo, err error) error {
		if err != nil {
			return nil
		}
		if info.IsDir() && (info.Name() == ".git" || info.Name() == "testdata") {
			return filepath.SkipDir
		}
		if info.Name() == "contracts_verif.go" {
			data, _ := os.ReadFile(p)
			if strings.Contains(string(data), "["+prop+"]") || strings.Contains(string(data), "["+prop+",") || strings.Contains(string(data), ","+prop+"]") || strings.Contains(string(data), ","+prop+",") {
				rel, _ := filepath.Rel(repo, filepath.Dir(p))
				pats = append(pats, "./"+rel)
			}
		}
		return nil
	})
	sort.Strings(pats)
	return pats
}

type checkResult struct {
	vcs      []*VC
	stats    *SolveStats
	wall     float64
	loadSecs float64
}

func CmdCheck(args []string) int {
	fs := flag.NewFlagSet("check", flag.ExitOnError)
	repo := fs.String("repo", "/repo", "repository")
	prop := fs.String("property", "", "property id")
	tier := fs.String("tier", "quick", "quick|thorough")
	verifDir := fs.String("verif", "/verif", "verif directory")
	keep := fs.Bool("keep", false, "keep SMT files")
	fs.Parse(args)
	if t := os.Getenv("VERIF_TIER"); t != "" && *tier == "" {
		*tier = t
	}
	seed := 0
	if s := os.Getenv("VERIF_SEED"); s != "" {
		seed, _ = strconv.Atoi(s)
	}
	t0 := time.Now()
	evPath := filepath.Join(*verifDir, "evidence", *prop+".json")
	os.MkdirAll(filepath.Dir(evPath), 0o755)
	os.Remove(evPath)
	fail := func(msg string) int {
		// machinery failure: report as such; no evidence of proof
		fmt.Println("ERROR:", msg)
		rp := writeReplay(*verifDir, *prop, "machinery", "the check could not run: "+msg)
		fmt.Printf("VIOLATION property=%s replay=%s no-failing-input-found\n", *prop, rp)
		writeEvidence(evPath, *prop, *tier, seed, nil, nil, time.Since(t0).Seconds(), 1, []string{msg}, nil, "")
		return 1
	}
	pats := packagesForProperty(*repo, *prop)
	if len(pats) == 0 {
		return fail("no contract file mentions property " + *prop)
	}
	e, err := NewEngine(Options{RepoDir: *repo, Prop: *prop, Tier: *tier, StrBytes: true, NilChecks: true}, pats)
	if err != nil {
		return fail("loading /repo: " + err.Error())
	}
	loadSecs := time.Since(t0).Seconds()
	work, _ := os.MkdirTemp("", "gvc-"+*prop+"-")
	defer os.RemoveAll(work)
	cfg := SolverCfg{WorkDir: work, BatchMs: 5000, SingleMs: 30000, KeepFiles: *keep}
	if *tier == "thorough" {
		cfg.BatchMs, cfg.SingleMs, cfg.Confirm = 20000, 120000, true
	}
	fns := e.FuncsForProperty(*prop)
	var vcs []*VC
	for _, fn := range fns {
		vcs = append(vcs, e.VerifyFunc(fn))
		for _, view := range e.viewsOf(fn) {
			vcs = append(vcs, e.VerifyFuncView(fn, view))
		}
	}
	for _, li := range e.lemmas {
		use := len(li.c.Tags) == 0
		for _, t := range li.c.Tags {
			if t == *prop {
				use = true
			}
		}
		if use {
			vcs = append(vcs, e.VerifyLemma(li))
		}
	}
	if wv := e.VerifyWires(*prop); wv != nil {
		vcs = append(vcs, wv)
	}
	stats := &SolveStats{}
	sem := make(chan struct{}, 16)
	var wg sync.WaitGroup
	for _, v := range vcs {
		v := v
		wg.Add(1)
		go func() {
			defer wg.Done()
			v.Solve(cfg, stats, sem)
		}()
	}
	wg.Wait()

	findings := loadFindings(filepath.Join(*verifDir, "known_findings.jsonl"))
	open := map[string]Finding{}
	for _, fd := range findings {
		if fd.Property == *prop && fd.Status == "open" {
			open[fd.Obligation] = fd
		}
	}
	nObl, nDis, nCov, nCovReach, violations := 0, 0, 0, 0, 0
	var undecided, unsupported, knownHit, unprovedHit []string
	var samples []map[string]interface{}
	var under []string
	notes := map[string]bool{}
	for n := range e.defOnlyUsed {
		notes["definitional contract only (purity checked syntactically, the body is not verified, its result is an uninterpreted function of its arguments): "+n] = true
	}
	deadCovers := map[string][]string{}
	for _, v := range vcs {
		under = append(under, v.name)
		for n := range v.notes {
			notes[n] = true
		}
		if v.unsupp != "" {
			unsupported = append(unsupported, v.name+": "+v.unsupp)
			name := v.name + "/unsupported"
			if fd, ok := open[name]; ok {
				fmt.Printf("KNOWN-FINDING: property=%s %s\n", *prop, fd.What)
				knownHit = append(knownHit, name)
				continue
			}
			violations++
			rp := writeReplay(*verifDir, *prop, name, "function cannot be verified: "+v.unsupp+"\nall its obligations are undischarged")
			fmt.Printf("VIOLATION property=%s replay=%s no-failing-input-found\n", *prop, rp)
			continue
		}
		for _, o := range v.obls {
			if o.Cover {
				nCov++
				if o.Status == "proved" {
					nCovReach++
				}
				if o.Status == "refuted" {
					deadCovers[v.name] = append(deadCovers[v.name], o.Name)
				}
				continue
			}
			if e.unproved[o.Name] {
				if o.Status != "proved" {
					unprovedHit = append(unprovedHit, o.Name)
				}
				continue
			}
			if fd, ok := open[o.Name]; ok {
				if o.Status != "proved" {
					fmt.Printf("KNOWN-FINDING: property=%s %s\n", *prop, fd.What)
					knownHit = append(knownHit, o.Name)
				}
				continue
			}
			nObl++
			if os.Getenv("GVC_SLOW") != "" && o.Secs > 2 {
				fmt.Fprintf(os.Stderr, "SLOW %6.2fs %s %s\n", o.Secs, o.Solver, o.Name)
			}
			switch o.Status {
			case "proved":
				nDis++
				if len(samples) < 6 && (o.Kind == "post" || o.Kind == "inv-keep" || o.Kind == "index" || o.Kind == "lemma") {
					samples = append(samples, map[string]interface{}{"obligation": o.Name, "solver": o.Solver, "seconds": round3(o.Secs)})
				}
			case "refuted":
				violations++
				rp, reproduced := e.replayObligation(*verifDir, *prop, v, o)
				if reproduced {
					fmt.Printf("VIOLATION property=%s replay=%s\n", *prop, rp)
				} else {
					fmt.Printf("VIOLATION property=%s replay=%s no-failing-input-found\n", *prop, rp)
				}
			default:
				violations++
				undecided = append(undecided, o.Name)
				rp, reproduced := e.replayObligation(*verifDir, *prop, v, o)
				if reproduced {
					fmt.Printf("VIOLATION property=%s replay=%s\n", *prop, rp)
				} else {
					fmt.Printf("VIOLATION property=%s replay=%s no-failing-input-found\n", *prop, rp)
				}
			}
		}
	}
	// vacuity: a function none of whose exits is reachable, or whose entry is
	// unreachable, proves nothing
	var deadExits []string
	for _, v := range vcs {
		nRet, nDead, entryDead := 0, 0, false
		for _, o := range v.obls {
			if !o.Cover {
				continue
			}
			if strings.HasSuffix(o.Name, "/cover/entry") || strings.HasSuffix(o.Name, "/cover/requires") {
				entryDead = o.Status == "refuted"
				continue
			}
			nRet++
			if o.Status == "refuted" {
				nDead++
				deadExits = append(deadExits, o.Name)
			}
		}
		if entryDead || (nRet > 0 && nDead == nRet) {
			name := v.name + "/vacuous"
			if fd, ok := open[name]; ok {
				fmt.Printf("KNOWN-FINDING: property=%s %s\n", *prop, fd.What)
				knownHit = append(knownHit, name)
				continue
			}
			violations++
			rp := writeReplay(*verifDir, *prop, name, "vacuity guard failed: the precondition is contradictory or no exit of the function is reachable under the contracts in force")
			fmt.Printf("VIOLATION property=%s replay=%s no-failing-input-found\n", *prop, rp)
		}
	}
	if nObl == 0 && violations == 0 {
		return fail("no obligations were generated (vacuous check)")
	}
	sort.Strings(under)
	// thorough tier: every recorded finding of this property is replayed on the
	// real code through its scenario adapter - a repaired defect must not come
	// back, an open one is expected to reproduce (dynamic, not proof)
	var scenarioRuns []map[string]string
	if *tier == "thorough" {
		entries, vd := loadAdapters(*verifDir)
		seenTest := map[string]bool{}
		for _, fd := range findings {
			if fd.Property != *prop {
				continue
			}
			for _, en := range entries {
				if !strings.Contains(fd.Obligation, en.Match) || seenTest[en.File+"/"+en.Test] {
					continue
				}
				seenTest[en.File+"/"+en.Test] = true
				rep, reproduced := e.runAdapter(vd, en)
				outcome := "not reproduced"
				if reproduced {
					outcome = "reproduced"
				}
				scenarioRuns = append(scenarioRuns, map[string]string{"adapter": en.File + "/" + en.Test, "finding_status": fd.Status, "outcome": outcome})
				if reproduced && fd.Status == "fixed" {
					violations++
					rp := writeReplay(*verifDir, *prop, "scenario/"+en.Test, "a repaired defect is back (recorded as fixed in known_findings.jsonl):\n"+fd.What+"\n\n"+rep)
					fmt.Printf("VIOLATION property=%s replay=%s\n", *prop, rp)
				}
				break
			}
		}
	}
	cov := map[string]interface{}{
		"obligations":              nObl,
		"discharged":               nDis,
		"checker_cmd":              fmt.Sprintf("bin/gvc check -property %s -tier %s", *prop, *tier),
		"trusted_base":             trustedBase(notes),
		"functions_under_contract": under,
		"by_backend":               backendJSON(stats),
		"solver_time_s":            round3(totalSecs(stats)),
		"covers":                   map[string]int{"n": nCov, "reachable": nCovReach, "inconclusive": nCov - nCovReach},
		"undecided":                undecided,
		"dead_exits":               deadExits,
		"not_proved_at_enrolment":  unprovedHit,
		"unsupported":              unsupported,
		"known_findings_hit":       knownHit,
		"scenario_replays":         scenarioRuns,
		"abstracted":               pick(notes, "abstracted:"),
		"assumed_contracts":        pick(notes, "assumed contract"),
		"havocked_calls":           pick(notes, "havoc:"),
		"lemmas_used":              pick(notes, "lemma used:"),
		"samples":                  samples,
		"slowest":                  slowestObls(vcs, 8),
		"load_s":                   round3(loadSecs),
		"packages":                 pats,
	}
	var assumptions []string
	for _, n := range sortedKeys(notes) {
		if strings.HasPrefix(n, "assumed") || strings.HasPrefix(n, "uninterpreted") {
			assumptions = append(assumptions, n)
		}
	}
	assumptions = append(assumptions, "machine int/int64 arithmetic treated as mathematical integers", "gvc VC generator, go/ssa and the SMT solvers are trusted")
	writeEvidence(evPath, *prop, *tier, seed, cov, assumptions, time.Since(t0).Seconds(), violations, nil, samples, "")
	fmt.Printf("property=%s tier=%s functions=%d obligations=%d discharged=%d covers=%d/%d violations=%d wall=%.1fs\n", *prop, *tier, len(vcs), nObl, nDis, nCovReach, nCov, violations, time.Since(t0).Seconds())
	if violations > 0 {
		return 1
	}
	return 0
}

func round3(x float64) float64 { return float64(int(x*1000+0.5)) / 1000 }

func totalSecs(s *SolveStats) float64 {
	t := 0.0
	for _, b := range s.ByBackend {
		t += b.Secs
	}
	return t
}

func backendJSON(s *SolveStats) map[string]interface{} {
	out := map[string]interface{}{}
	for k, b := range s.ByBackend {
		out[k] = map[string]interface{}{"n": b.N, "s": round3(b.Secs)}
	}
	return out
}

func pick(notes map[string]bool, prefix string) []string {
	out := []string{}
	for _, n := range sortedKeys(notes) {
		if strings.HasPrefix(n, prefix) {
			out = append(out, n)
		}
	}
	return out
}

func trustedBase(notes map[string]bool) []string {
	tb := []string{"gvc (VC generator written for this task)", "golang.org/x/tools/go/ssa v0.29.0", "z3 4.8.12", "z3 5.1.0 (z3-new)", "cvc5 1.0.3", "machine int treated as mathematical"}
	for _, n := range pick(notes, "assumed contract") {
		tb = append(tb, n)
	}
	return tb
}

func writeEvidence(path, prop, tier string, seed int, cov map[string]interface{}, assumptions []string, wall float64, violations int, errs []string, samples []map[string]interface{}, extra string) {
	if cov == nil {
		cov = map[string]interface{}{"explanation": "check did not complete: " + strings.Join(errs, "; "), "evaluations": 0, "distinct_nontrivial": 0}
	}
	ev := map[string]interface{}{
		"property_id": prop, "tier": tier, "seed": seed, "level": "proof", "coverage": cov,
		"assumptions": assumptions, "wall_s": round3(wall), "violations": violations,
	}
	if assumptions == nil {
		ev["assumptions"] = []string{}
	}
	data, _ := json.MarshalIndent(ev, "", " ")
	os.WriteFile(path, data, 0o644)
}

func writeReplay(verifDir, prop, obligation, body string) string {
	dir := filepath.Join(verifDir, "replays", prop)
	os.MkdirAll(dir, 0o755)
	h := sha256.Sum256([]byte(obligation))
	name := safeFile(obligation)
	if len(name) > 80 {
		name = name[len(name)-80:]
	}
	p := filepath.Join(dir, fmt.Sprintf("%s-%x.txt", name, h[:4]))
	os.WriteFile(p, []byte("obligation: "+obligation+"\nproperty: "+prop+"\n\n"+body+"\n"), 0o644)
	return p
}

// replayObligation writes the replay file for a failed obligation and tries
// to reproduce the failure on the real code when the verifier gave a model.
func (e *Engine) replayObligation(verifDir, prop string, v *VC, o *Obl) (string, bool) {
	var b strings.Builder
	fmt.Fprintf(&b, "status: %s\nkind: %s\n", o.Status, o.Kind)
	if o.Pos.IsValid() {
		fmt.Fprintf(&b, "position: %s\n", o.Pos)
	}
	if o.Clause != nil {
		fmt.Fprintf(&b, "contract clause: %s %s (%s:%d)\n", o.Clause.Kind, o.Clause.Text, o.Clause.File, o.Clause.Line)
	}
	fmt.Fprintf(&b, "solver answers: %s %s\n", o.Solver, o.Out)
	reproduced := false
	if o.Status == "refuted" && o.Model != "" {
		rep, ok := e.leafReplay(v, o)
		b.WriteString("\n" + rep)
		reproduced = ok
	} else {
		b.WriteString("\nthe solvers returned no model for this obligation (quantified goal); it was discharged on the unchanged tree and is not discharged now.\n")
	}
	if !reproduced {
		if rep, ok := e.adapterReplay(verifDir, o); rep != "" {
			b.WriteString("\n" + rep)
			reproduced = ok
		}
	}
	return writeReplay(verifDir, prop, o.Name, b.String()), reproduced
}

// slowestObls lists the obligations that took the solvers longest (a watch list:
// what is close to the time limit is what can turn into a spurious alarm).
func slowestObls(vcs []*VC, n int) []map[string]interface{} {
	var all []*Obl
	for _, v := range vcs {
		for _, o := range v.obls {
			if !o.Cover {
				all = append(all, o)
			}
		}
	}
	sort.Slice(all, func(i, j int) bool { return all[i].Secs > all[j].Secs })
	var out []map[string]interface{}
	for i := 0; i < len(all) && i < n; i++ {
		out = append(out, map[string]interface{}{"obligation": all[i].Name, "solver": all[i].Solver, "seconds": round3(all[i].Secs)})
	}
	return out
}
