package vc

import (
	"encoding/json"
	"flag"
	"fmt"
	"os"
	"path/filepath"
	"sort"
	"strings"
	"sync"

	"golang.org/x/tools/go/ssa"
)

func DebugFunc(repo, pkg, fnName, prop, tier string, dump bool, work string) int {
	e, err := NewEngine(Options{RepoDir: repo, Prop: prop, Tier: tier, StrBytes: true, NilChecks: true}, []string{pkg})
	if err != nil {
		fmt.Fprintln(os.Stderr, "load:", err)
		return 2
	}
	os.MkdirAll(work, 0o755)
	var fns []*ssa.Function
	for _, sp := range e.SSAPkgs {
		if sp == nil || !e.isRepoPkg(sp.Pkg) {
			continue
		}
		for fn := range e.allFuncsOf(sp) {
			if fnName == "" || fn.RelString(sp.Pkg) == fnName {
				fns = append(fns, fn)
			}
		}
	}
	sort.Slice(fns, func(i, j int) bool { return fns[i].String() < fns[j].String() })
	if strings.HasPrefix(fnName, "lemma:") {
		stats := &SolveStats{}
		sem := make(chan struct{}, 16)
		cfg := SolverCfg{WorkDir: work, BatchMs: 4000, SingleMs: 10000, KeepFiles: dump}
		for _, li := range e.lemmas {
			if li.c.Name == strings.TrimPrefix(fnName, "lemma:") {
				vc := e.VerifyLemma(li)
				if vc.unsupp != "" {
					fmt.Println("UNSUPPORTED", vc.unsupp)
					return 1
				}
				vc.Solve(cfg, stats, sem)
				for _, o := range vc.obls {
					fmt.Printf("   %s %s [%s] %s\n", strings.ToUpper(o.Status), o.Name, o.Solver, o.Out)
				}
			}
		}
		return 0
	}
	if len(fns) == 0 {
		fmt.Fprintln(os.Stderr, "no such function")
		return 2
	}
	stats := &SolveStats{}
	sem := make(chan struct{}, 16)
	cfg := SolverCfg{WorkDir: work, BatchMs: 4000, SingleMs: 10000, KeepFiles: dump}
	bad := 0
	type pass struct {
		fn   *ssa.Function
		view string
	}
	var passes []pass
	for _, fn := range fns {
		passes = append(passes, pass{fn, ""})
		for _, v := range e.viewsOf(fn) {
			passes = append(passes, pass{fn, v})
		}
	}
	for _, ps := range passes {
		fn := ps.fn
		if fn.Blocks == nil {
			continue
		}
		vc := e.VerifyFunc(fn)
		if ps.view != "" {
			vc = e.VerifyFuncView(fn, ps.view)
		}
		if vc.unsupp != "" {
			fmt.Printf("%-60s UNSUPPORTED %s\n", funcDisplayName(fn), vc.unsupp)
			continue
		}
		vc.Solve(cfg, stats, sem)
		if vc.unsupp != "" {
			fmt.Printf("%-60s ERROR %s\n", funcDisplayName(fn), vc.unsupp)
			continue
		}
		np, nr, nu := 0, 0, 0
		for _, o := range vc.obls {
			switch o.Status {
			case "proved", "cover-unknown":
				np++
			case "refuted":
				nr++
			default:
				nu++
			}
		}
		fmt.Printf("%-60s obligations=%d proved=%d refuted=%d undecided=%d\n", funcDisplayName(fn), len(vc.obls), np, nr, nu)
		if os.Getenv("GVC_DEBUG") != "" {
			for _, o := range vc.obls {
				fmt.Printf("   %-14s %-8s %6.2fs %s\n", o.Status, o.Solver, o.Secs, o.Name)
			}
		}
		for _, o := range vc.obls {
			if o.Status != "proved" && o.Status != "cover-unknown" {
				bad++
				fmt.Printf("   %s %s  [%s] %s\n", strings.ToUpper(o.Status), o.Name, o.Solver, o.Out)
				if o.Model != "" && fnName != "" {
					fmt.Println(modelSummary(o.Model, vc.inputs))
				}
			}
		}
		if fnName != "" {
			for _, n := range sortedKeys(vc.notes) {
				fmt.Println("   note:", n)
			}
		}
	}
	if bad > 0 {
		return 1
	}
	return 0
}

func modelSummary(model string, inputs []string) string {
	// print the model lines for input constants only (best effort)
	var out []string
	lines := strings.Split(model, "\n")
	for i, l := range lines {
		for _, in := range inputs {
			if strings.Contains(l, "(define-fun "+in+" ") {
				s := strings.TrimSpace(l)
				if i+1 < len(lines) && !strings.HasSuffix(s, ")") || strings.Count(s, "(") > strings.Count(s, ")") {
					s += " " + strings.TrimSpace(lines[i+1])
				}
				out = append(out, "      "+s)
			}
		}
	}
	return strings.Join(out, "\n")
}

// CmdSweep: zero-annotation safety sweep over the functions defined in the
// given files; prints which functions are clean (all safety obligations
// discharged) and, with -emit, the nopanic enrolment lines per package.
func CmdSweep(args []string) int {
	fs := flag.NewFlagSet("sweep", flag.ExitOnError)
	repo := fs.String("repo", "/repo", "repository")
	prop := fs.String("property", "", "property id (anchor files are read from properties.jsonl)")
	filesArg := fs.String("files", "", "comma separated files relative to the repo (overrides property anchors)")
	emit := fs.Bool("emit", false, "print nopanic lines for clean functions")
	verifDir := fs.String("verif", "/verif", "verif directory")
	fs.Parse(args)
	var files []string
	if *filesArg != "" {
		files = strings.Split(*filesArg, ",")
	} else {
		files = anchorFiles(filepath.Join(*verifDir, "properties.jsonl"), *prop, *repo)
	}
	want := map[string]bool{}
	pkgs := map[string]bool{}
	for _, f := range files {
		abs := filepath.Join(*repo, f)
		want[abs] = true
		pkgs["./"+filepath.Dir(f)] = true
	}
	e, err := NewEngine(Options{RepoDir: *repo, Prop: *prop, Tier: "quick", StrBytes: true, NilChecks: true}, sortedKeys(pkgs))
	if err != nil {
		fmt.Fprintln(os.Stderr, "load:", err)
		return 2
	}
	work, _ := os.MkdirTemp("", "gvc-sweep-")
	defer os.RemoveAll(work)
	var fns []*ssa.Function
	for _, sp := range e.SSAPkgs {
		if sp == nil || !e.isRepoPkg(sp.Pkg) {
			continue
		}
		for fn := range e.allFuncsOf(sp) {
			if fn.Blocks == nil || fn.Synthetic != "" {
				continue
			}
			pos := e.Prog.Fset.Position(fn.Pos())
			if want[pos.Filename] {
				fns = append(fns, fn)
			}
		}
	}
	sort.Slice(fns, func(i, j int) bool { return funcDisplayName(fns[i]) < funcDisplayName(fns[j]) })
	var vcs []*VC
	for _, fn := range fns {
		vcs = append(vcs, e.VerifyFunc(fn))
	}
	stats := &SolveStats{}
	sem := make(chan struct{}, 16)
	cfg := SolverCfg{WorkDir: work, BatchMs: 5000, SingleMs: 10000}
	var wg sync.WaitGroup
	for _, v := range vcs {
		v := v
		wg.Add(1)
		go func() {
			defer wg.Done()
			v.Solve(cfg, stats, sem)
		}()
	}
	wg.Wait()
	clean := map[string][]string{}
	nclean, nbad := 0, 0
	for i, v := range vcs {
		fn := fns[i]
		bad := v.unsupp != ""
		var nilOnly []string
		for _, o := range v.obls {
			if o.Cover && !strings.HasSuffix(o.Name, "/cover/entry") {
				continue
			}
			if o.Status != "proved" && o.Status != "cover-unknown" {
				if o.Kind == "nil" {
					nilOnly = append(nilOnly, strings.TrimPrefix(o.Name, v.name+"/"))
				} else {
					bad = true
				}
			}
		}
		if bad {
			nbad++
			fmt.Printf("NOT-CLEAN %s %s\n", v.name, v.unsupp)
			for _, o := range v.obls {
				if o.Status != "proved" && o.Status != "cover-unknown" {
					fmt.Printf("      %s %s\n", o.Status, o.Name)
				}
			}
			continue
		}
		nclean++
		ref := fn.RelString(fn.Pkg.Pkg)
		if len(nilOnly) > 0 {
			fmt.Printf("NIL-UNPROVED %s: %s\n", v.name, strings.Join(nilOnly, "; "))
			ref += " -- unproved: " + strings.Join(nilOnly, "; ")
		}
		clean[fn.Pkg.Pkg.Path()] = append(clean[fn.Pkg.Pkg.Path()], ref)
	}
	fmt.Printf("sweep: %d functions, %d clean, %d not clean\n", len(vcs), nclean, nbad)
	if *emit {
		for _, p := range sortedKeysS(clean) {
			fmt.Printf("### %s\n", p)
			for _, r := range clean[p] {
				fmt.Printf("//@ nopanic [%s] %s\n", *prop, r)
			}
		}
	}
	return 0
}

func sortedKeysS(m map[string][]string) []string {
	var ks []string
	for k := range m {
		ks = append(ks, k)
	}
	sort.Strings(ks)
	return ks
}

// anchorFiles reads the anchor file list of a property, expanding globs.
func anchorFiles(propsPath, prop, repo string) []string {
	data, err := os.ReadFile(propsPath)
	if err != nil {
		return nil
	}
	var out []string
	if ex, err := os.ReadFile(filepath.Join(filepath.Dir(propsPath), "sweep_extra.json")); err == nil {
		var m map[string][]string
		if json.Unmarshal(ex, &m) == nil {
			out = append(out, m[prop]...)
		}
	}
	for _, l := range strings.Split(string(data), "\n") {
		var p struct {
			ID      string `json:"id"`
			Anchors struct {
				Files []string `json:"files"`
			} `json:"anchors"`
		}
		if json.Unmarshal([]byte(l), &p) != nil || p.ID != prop {
			continue
		}
		for _, f := range p.Anchors.Files {
			if strings.Contains(f, "*") {
				ms, _ := filepath.Glob(filepath.Join(repo, f))
				for _, m := range ms {
					if strings.HasSuffix(m, "_test.go") || strings.HasSuffix(m, "contracts_verif.go") {
						continue
					}
					rel, _ := filepath.Rel(repo, m)
					out = append(out, rel)
				}
			} else if _, err := os.Stat(filepath.Join(repo, f)); err == nil {
				out = append(out, f)
			}
		}
	}
	return out
}
