package vc

import (
	"fmt"
	"os"
	"sort"
	"strings"

	"golang.org/x/tools/go/ssa"
)

func DebugFunc(repo, pkg, fnName, prop, tier string, dump bool, work string) int {
	e, err := NewEngine(Options{RepoDir: repo, Prop: prop, Tier: tier, StrBytes: true}, []string{pkg})
	if err != nil {
		fmt.Fprintln(os.Stderr, "load:", err)
		return 2
	}
	os.MkdirAll(work, 0o755)
	var fns []*ssa.Function
	for _, sp := range e.SSAPkgs {
		if sp == nil || !e.isRepoPkg(sp.Pkg) {
			continue
		}
		for fn := range e.allFuncsOf(sp) {
			if fnName == "" || fn.RelString(sp.Pkg) == fnName {
				fns = append(fns, fn)
			}
		}
	}
	sort.Slice(fns, func(i, j int) bool { return fns[i].String() < fns[j].String() })
	if strings.HasPrefix(fnName, "lemma:") {
		stats := &SolveStats{}
		sem := make(chan struct{}, 16)
		cfg := SolverCfg{WorkDir: work, BatchMs: 4000, SingleMs: 10000, KeepFiles: dump}
		for _, li := range e.lemmas {
			if li.c.Name == strings.TrimPrefix(fnName, "lemma:") {
				vc := e.VerifyLemma(li)
				if vc.unsupp != "" {
					fmt.Println("UNSUPPORTED", vc.unsupp)
					return 1
				}
				vc.Solve(cfg, stats, sem)
				for _, o := range vc.obls {
					fmt.Printf("   %s %s [%s] %s\n", strings.ToUpper(o.Status), o.Name, o.Solver, o.Out)
				}
			}
		}
		return 0
	}
	if len(fns) == 0 {
		fmt.Fprintln(os.Stderr, "no such function")
		return 2
	}
	stats := &SolveStats{}
	sem := make(chan struct{}, 16)
	cfg := SolverCfg{WorkDir: work, BatchMs: 4000, SingleMs: 10000, KeepFiles: dump}
	bad := 0
	for _, fn := range fns {
		if fn.Blocks == nil {
			continue
		}
		vc := e.VerifyFunc(fn)
		if vc.unsupp != "" {
			fmt.Printf("%-60s UNSUPPORTED %s\n", funcDisplayName(fn), vc.unsupp)
			continue
		}
		vc.Solve(cfg, stats, sem)
		if vc.unsupp != "" {
			fmt.Printf("%-60s ERROR %s\n", funcDisplayName(fn), vc.unsupp)
			continue
		}
		np, nr, nu := 0, 0, 0
		for _, o := range vc.obls {
			switch o.Status {
			case "proved", "cover-unknown":
				np++
			case "refuted":
				nr++
			default:
				nu++
			}
		}
		fmt.Printf("%-60s obligations=%d proved=%d refuted=%d undecided=%d\n", funcDisplayName(fn), len(vc.obls), np, nr, nu)
		if os.Getenv("GVC_DEBUG") != "" {
			for _, o := range vc.obls {
				fmt.Printf("   %-14s %-8s %6.2fs %s\n", o.Status, o.Solver, o.Secs, o.Name)
			}
		}
		for _, o := range vc.obls {
			if o.Status != "proved" && o.Status != "cover-unknown" {
				bad++
				fmt.Printf("   %s %s  [%s] %s\n", strings.ToUpper(o.Status), o.Name, o.Solver, o.Out)
				if o.Model != "" && fnName != "" {
					fmt.Println(modelSummary(o.Model, vc.inputs))
				}
			}
		}
		if fnName != "" {
			for _, n := range sortedKeys(vc.notes) {
				fmt.Println("   note:", n)
			}
		}
	}
	if bad > 0 {
		return 1
	}
	return 0
}

func modelSummary(model string, inputs []string) string {
	// print the model lines for input constants only (best effort)
	var out []string
	lines := strings.Split(model, "\n")
	for i, l := range lines {
		for _, in := range inputs {
			if strings.Contains(l, "(define-fun "+in+" ") {
				s := strings.TrimSpace(l)
				if i+1 < len(lines) && !strings.HasSuffix(s, ")") || strings.Count(s, "(") > strings.Count(s, ")") {
					s += " " + strings.TrimSpace(lines[i+1])
				}
				out = append(out, "      "+s)
			}
		}
	}
	return strings.Join(out, "\n")
}

func CmdSweep(args []string) int { return 2 }
