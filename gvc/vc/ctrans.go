package vc

// Translation of contract expressions to SMT terms.

import (
	"fmt"
	"go/ast"
	"go/constant"
	"go/parser"
	"go/token"
	"go/types"
	"strconv"
	"strings"

	"golang.org/x/tools/go/ssa"
)

type Env struct {
	f           *frame
	vars        map[string]TV
	st          *bstate
	old         *bstate
	oldVars     map[string]TV
	pkg         *types.Package
	anchorBlock *ssa.BasicBlock
	anchorIdx   int
	specDepth   int
	paramVars   map[string]TV       // function parameters: shadowed by locals at the anchor
	absIdx      map[string]absIndex // quantified variables rebased to absolute row positions
	curParams   bool                // inside cur(...): a reassigned parameter denotes its current value
}

// absIndex: the bound variable `name` is represented as (abs - off) so that
// s[name] becomes select(row, abs): a trigger without arithmetic.
type absIndex struct {
	off string
	abs string
}

func (e *Env) with(name string, tv TV) *Env {
	n := *e
	n.vars = make(map[string]TV, len(e.vars)+1)
	for k, v := range e.vars {
		n.vars[k] = v
	}
	n.vars[name] = tv
	return &n
}

type cerr string

func cfail(f string, a ...interface{}) { panic(cerr(fmt.Sprintf(f, a...))) }

func (f *frame) transBool(e CE, env *Env) string {
	tv := f.trans(e, env)
	if tv.S != "Bool" {
		cfail("expression %s is not boolean (sort %s)", e, tv.S)
	}
	return tv.T
}

func (f *frame) resolveType(text string, pkg *types.Package) types.Type {
	if t, ok := f.eng().typeCache[pkg.Path()+"|"+text]; ok {
		return t
	}
	ex, err := parser.ParseExpr(text)
	if err != nil {
		cfail("cannot parse type %q: %v", text, err)
	}
	t := f.typeOfAST(ex, pkg, text)
	f.eng().typeCache[pkg.Path()+"|"+text] = t
	return t
}

// tryResolveType: text names a type (and not a contract variable in scope)
func (f *frame) tryResolveType(text string, pkg *types.Package) (t types.Type, ok bool) {
	ex, err := parser.ParseExpr(text)
	if err != nil {
		return nil, false
	}
	switch x := ex.(type) {
	case *ast.Ident:
		if obj := pkg.Scope().Lookup(x.Name); obj != nil {
			if tn, ok := obj.(*types.TypeName); ok {
				return tn.Type(), true
			}
		}
	case *ast.SelectorExpr:
		if id, ok := x.X.(*ast.Ident); ok {
			if p := f.findImport(pkg, id.Name); p != nil {
				if tn, ok := p.Scope().Lookup(x.Sel.Name).(*types.TypeName); ok {
					return tn.Type(), true
				}
			}
		}
	}
	return nil, false
}

func (f *frame) typeOfAST(ex ast.Expr, pkg *types.Package, text string) types.Type {
	switch x := ex.(type) {
	case *ast.Ident:
		if obj := pkg.Scope().Lookup(x.Name); obj != nil {
			if tn, ok := obj.(*types.TypeName); ok {
				return tn.Type()
			}
		}
		if obj := types.Universe.Lookup(x.Name); obj != nil {
			if tn, ok := obj.(*types.TypeName); ok {
				return tn.Type()
			}
		}
	case *ast.SelectorExpr:
		if id, ok := x.X.(*ast.Ident); ok {
			if p := f.findImport(pkg, id.Name); p != nil {
				if tn, ok := p.Scope().Lookup(x.Sel.Name).(*types.TypeName); ok {
					return tn.Type()
				}
			}
		}
	case *ast.StarExpr:
		return types.NewPointer(f.typeOfAST(x.X, pkg, text))
	case *ast.ArrayType:
		if x.Len == nil {
			return types.NewSlice(f.typeOfAST(x.Elt, pkg, text))
		}
	case *ast.MapType:
		return types.NewMap(f.typeOfAST(x.Key, pkg, text), f.typeOfAST(x.Value, pkg, text))
	case *ast.InterfaceType:
		if x.Methods == nil || len(x.Methods.List) == 0 {
			return types.NewInterfaceType(nil, nil)
		}
	case *ast.ParenExpr:
		return f.typeOfAST(x.X, pkg, text)
	}
	cfail("cannot resolve type %q in %s", text, pkg.Path())
	return nil
}

func (f *frame) trans(e CE, env *Env) TV {
	vc := f.vc
	switch x := e.(type) {
	case *CLit:
		switch x.Kind {
		case token.INT:
			n, err := strconv.ParseInt(x.Val, 0, 64)
			if err != nil {
				cfail("integer literal %s", x.Val)
			}
			return TV{T: intLit(n), S: "Int", Lit: true}
		case token.CHAR:
			r, _, _, err := strconv.UnquoteChar(x.Val[1:len(x.Val)-1], '\'')
			if err != nil {
				cfail("char literal %s", x.Val)
			}
			return TV{T: intLit(int64(r)), S: "Int", Lit: true}
		case token.STRING:
			s, err := strconv.Unquote(x.Val)
			if err != nil {
				cfail("string literal %s", x.Val)
			}
			return TV{T: vc.strLit(s), S: "Str", Ty: types.Typ[types.String]}
		}
	case *CIdent:
		return f.transIdent(x.Name, env)
	case *CSel:
		return f.transSel(x, env)
	case *CIndex:
		return f.transIndex(x, env)
	case *CSlice:
		return f.transSlice(x, env)
	case *CCall:
		return f.transCall(x, env)
	case *CUn:
		if x.Op == "*" {
			// *T as the operand of typeof(x) == *T
			_, isVar := env.vars[x.X.String()]
			if ty, ok := f.tryResolveType(x.X.String(), env.pkg); ok && !isVar {
				return TV{T: fmt.Sprint(vc.tagOf(types.NewPointer(ty))), S: "Int", Lit: true}
			}
		}
		v := f.trans(x.X, env)
		switch x.Op {
		case "!":
			return TV{T: not(v.T), S: "Bool"}
		case "-":
			if v.Lit {
				n, _ := parseIntLit(v.T)
				return TV{T: intLit(-n), S: "Int", Lit: true}
			}
			return TV{T: "(- " + v.T + ")", S: v.S, Ty: v.Ty}
		case "*":
			if v.Ty == nil {
				cfail("dereference of untyped value %s", x.X)
			}
			pt, ok := v.Ty.Underlying().(*types.Pointer)
			if !ok {
				cfail("dereference of non-pointer %s", x.X)
			}
			if v.LV != nil {
				return f.load(env.st, v.LV)
			}
			return f.load(env.st, f.lvOfRef(v.T, pt.Elem()))
		}
	case *CBin:
		return f.transBin(x, env)
	case *CQuant:
		var binds []string
		ne := env
		for _, v := range x.Vars {
			ty := f.resolveType(v.Type, env.pkg)
			s := f.sortOf(ty)
			vc.nameCnt++
			name := q(fmt.Sprintf("%s!q%d", v.Name, vc.nameCnt))
			binds = append(binds, "("+name+" "+s+")")
			ne = ne.with(v.Name, TV{T: name, S: s, Ty: ty})
			if s == "Int" {
				if off, ok := f.absIndexBase(x.Body, v.Name, ne); ok && off != "0" {
					ne = ne.with(v.Name, TV{T: "(- " + name + " " + off + ")", S: s, Ty: ty})
					m := map[string]absIndex{}
					for k, a := range ne.absIdx {
						m[k] = a
					}
					m[v.Name] = absIndex{off: off, abs: name}
					ne.absIdx = m
				}
			}
		}
		f.boundDepth++
		body := func() string {
			defer func() { f.boundDepth-- }()
			return f.transBool(x.Body, ne)
		}()
		qn := "exists"
		if x.Forall {
			qn = "forall"
		}
		return TV{T: "(" + qn + " (" + strings.Join(binds, " ") + ") " + body + ")", S: "Bool"}
	case *CTypeAssert:
		v := f.trans(x.X, env)
		if v.S != "Iface" {
			cfail("type assertion on non-interface %s", x.X)
		}
		ty := f.resolveType(x.Type, env.pkg)
		return f.unboxIface(v.T, ty)
	case *CTypeLit:
		ty := f.resolveType(x.Type, env.pkg)
		return TV{T: fmt.Sprint(vc.tagOf(ty)), S: "Int", Lit: true}
	}
	cfail("cannot translate %s", e)
	return TV{}
}

func (f *frame) constTV(c *types.Const) TV {
	t := c.Type()
	s := f.sortOf(t)
	switch {
	case s == "Bool":
		if constant.BoolVal(c.Val()) {
			return TV{T: "true", S: s, Ty: t}
		}
		return TV{T: "false", S: s, Ty: t}
	case s == "Str":
		return TV{T: f.vc.strLit(constant.StringVal(c.Val())), S: s, Ty: t}
	case s == "Int":
		i, _ := constant.Int64Val(constant.ToInt(c.Val()))
		b, _ := t.Underlying().(*types.Basic)
		return TV{T: intLit(i), S: s, Ty: t, Lit: b != nil && b.Info()&types.IsUntyped != 0}
	case isBV(s):
		u, _ := constant.Uint64Val(constant.ToInt(c.Val()))
		return TV{T: bvLit(u, bvWidth(s)), S: s, Ty: t}
	}
	cfail("constant %s of sort %s", c.Name(), s)
	return TV{}
}

func (f *frame) objTV(obj types.Object, env *Env) TV {
	switch o := obj.(type) {
	case *types.Const:
		return f.constTV(o)
	case *types.Var:
		// package-level variable
		sp := f.eng().Prog.Package(o.Pkg())
		if sp == nil {
			cfail("package of %s not in program", o.Name())
		}
		g, ok := sp.Members[o.Name()].(*ssa.Global)
		if !ok {
			cfail("%s is not a global", o.Name())
		}
		lv := f.lvalOf(g)
		return f.load(env.st, lv)
	case *types.TypeName:
		return TV{T: fmt.Sprint(f.vc.tagOf(o.Type())), S: "Int", Lit: true, Ty: nil}
	case *types.Func:
		sp := f.eng().Prog.FuncValue(o)
		if sp == nil {
			cfail("function %s not in program", o.Name())
		}
		return f.funcVal(sp)
	}
	cfail("object %s (%T) cannot be used in a contract", obj.Name(), obj)
	return TV{}
}

func (f *frame) transIdent(name string, env *Env) TV {
	switch name {
	case "true", "false":
		return TV{T: name, S: "Bool"}
	case "nil":
		return TV{T: "nil", S: "nil"}
	}
	if env.curParams {
		// at a loop head the current value of a reassigned parameter is its
		// header phi (bound in env.vars by headEnv)
		if env.anchorBlock != nil && env.anchorIdx == 0 {
			for _, in := range env.anchorBlock.Instrs {
				phi, ok := in.(*ssa.Phi)
				if !ok {
					break
				}
				if phi.Comment == name {
					if tv, ok := env.vars[name]; ok {
						return tv
					}
				}
			}
		}
		if tv, ok := f.localAt(name, env); ok {
			return tv
		}
	}
	if tv, ok := env.vars[name]; ok {
		return tv
	}
	// captured variable of a function literal: the content of its cell
	if env.f == f && f.fn != nil && env.st != nil {
		for _, fv := range f.fn.FreeVars {
			if fv.Name() == name {
				if _, ok := f.vals[fv]; ok {
					return f.load(env.st, f.lvalOf(fv))
				}
			}
		}
	}
	if tv, ok := f.localAt(name, env); ok {
		return tv
	}
	if tv, ok := env.paramVars[name]; ok {
		return tv
	}
	if obj := env.pkg.Scope().Lookup(name); obj != nil {
		return f.objTV(obj, env)
	}
	if obj := types.Universe.Lookup(name); obj != nil {
		if tn, ok := obj.(*types.TypeName); ok {
			return TV{T: fmt.Sprint(f.vc.tagOf(tn.Type())), S: "Int", Lit: true}
		}
	}
	cfail("unresolved name %q", name)
	return TV{}
}

// localAt finds the SSA value of a source-level local at the env anchor using
// DebugRefs: the latest reference in a block that dominates the anchor.
func (f *frame) localAt(name string, env *Env) (TV, bool) {
	if env.anchorBlock == nil || env.f != f {
		return TV{}, false
	}
	anchor := env.anchorBlock
	type cand struct {
		x      ssa.Value
		isAddr bool
		b      *ssa.BasicBlock
	}
	var best *cand
	consider := func(cd *cand) {
		if best == nil || best.b == cd.b || best.b.Dominates(cd.b) {
			best = cd
		}
	}
	for _, b := range f.fn.Blocks {
		if !(b == anchor || b.Dominates(anchor)) {
			continue
		}
		for i, in := range b.Instrs {
			if b == anchor && i >= env.anchorIdx {
				break
			}
			// a join of the variable's definitions (the source variable is named in
			// the phi's comment)
			if phi, ok := in.(*ssa.Phi); ok && phi.Comment == name {
				// (a reassigned parameter keeps denoting its entry value)
				isParam := false
				for _, p := range f.fn.Params {
					if p.Name() == name {
						isParam = true
					}
				}
				if _, isLV := f.lvs[phi]; !isLV && (!isParam || env.curParams) {
					consider(&cand{x: phi, b: b})
				}
				continue
			}
			d, ok := in.(*ssa.DebugRef)
			if !ok {
				continue
			}
			if o := d.Object(); o != nil && o.Name() == name {
				if v, isVar := o.(*types.Var); !isVar || v.IsField() {
					continue
				}
				// a parameter's own object: the name keeps denoting the entry value
				isParam := false
				for _, p := range f.fn.Params {
					if p.Object() == o {
						isParam = true
					}
				}
				if isParam && !env.curParams {
					continue
				}
				if d.IsAddr {
					if pt, isP := d.X.Type().Underlying().(*types.Pointer); !isP || !types.Identical(o.Type(), pt.Elem()) {
						continue
					}
				} else if !types.Identical(o.Type(), d.X.Type()) {
					continue
				}
				consider(&cand{x: d.X, isAddr: d.IsAddr, b: b})
			}
		}
	}
	if best == nil {
		// a named result kept in a cell (functions with defers): allocated at entry
		if env.st != nil && f.fn.Signature != nil {
			rs := f.fn.Signature.Results()
			for i := 0; i < rs.Len(); i++ {
				if rs.At(i).Name() != name {
					continue
				}
				for _, al := range f.fn.Locals {
					if al.Comment == name && types.Identical(al.Type().(*types.Pointer).Elem(), rs.At(i).Type()) {
						if _, ok := f.vals[al]; ok {
							return f.load(env.st, f.lvalOf(al)), true
						}
					}
				}
			}
		}
		return TV{}, false
	}
	if best.isAddr {
		// address-taken variable: its value is the content of its cell in the
		// state the expression is evaluated in
		if env.st == nil {
			return TV{}, false
		}
		if _, isLV := f.lvs[best.x]; !isLV {
			if _, ok := f.vals[best.x]; !ok {
				if _, isG := best.x.(*ssa.Global); !isG {
					return TV{}, false
				}
			}
		}
		return f.load(env.st, f.lvalOf(best.x)), true
	}
	// the value must not be redefined inside a loop that contains the anchor
	// unless it is a header phi (handled by headEnv before we get here)
	if tv, ok := f.vals[best.x]; ok {
		return tv, true
	}
	if c, ok := best.x.(*ssa.Const); ok {
		return f.constVal(c), true
	}
	return TV{}, false
}

func (f *frame) findImport(pkg *types.Package, name string) *types.Package {
	for _, p := range pkg.Imports() {
		if p.Name() == name {
			return p
		}
	}
	// fall back: any package in the program with that name that pkg's files could import
	return f.eng().pkgByName(name)
}

func (f *frame) transSel(x *CSel, env *Env) TV {
	if id, ok := x.X.(*CIdent); ok {
		_, isParam := env.paramVars[id.Name]
		if _, shadow := env.vars[id.Name]; !shadow && !isParam && env.pkg.Scope().Lookup(id.Name) == nil {
			if _, isLocal := f.localAt(id.Name, env); !isLocal {
				if p := f.findImport(env.pkg, id.Name); p != nil {
					obj := p.Scope().Lookup(x.Sel)
					if obj == nil {
						cfail("%s.%s not found", id.Name, x.Sel)
					}
					return f.objTV(obj, env)
				}
			}
		}
	}
	v := f.trans(x.X, env)
	return f.selField(v, x.Sel, env)
}

func (f *frame) selField(v TV, name string, env *Env) TV {
	if v.Ty == nil {
		cfail("selector .%s on untyped value", name)
	}
	t := v.Ty
	isPtr := false
	if p, ok := t.Underlying().(*types.Pointer); ok {
		if v.LV != nil {
			// interior pointer argument: read the struct it points into
			return f.selField(f.load(env.st, v.LV), name, env)
		}
		t = p.Elem()
		isPtr = true
	}
	if _, ok := t.Underlying().(*types.Struct); !ok {
		cfail("selector .%s on %s", name, v.Ty)
	}
	obj, path, _ := types.LookupFieldOrMethod(t, true, env.pkgOf(t), name)
	fld, ok := obj.(*types.Var)
	if !ok || fld == nil {
		// unexported field of another package: search by name directly
		path = nil
		st := t.Underlying().(*types.Struct)
		for i := 0; i < st.NumFields(); i++ {
			if st.Field(i).Name() == name {
				path = []int{i}
			}
		}
		if path == nil {
			cfail("no field %s in %s", name, t)
		}
	}
	cur := v
	curT := t
	for _, i := range path {
		// auto-deref embedded pointers
		if p, ok := curT.Underlying().(*types.Pointer); ok {
			curT = p.Elem()
			isPtr = true
		}
		st := curT.Underlying().(*types.Struct)
		ft := st.Field(i).Type()
		si := f.sr().structSort(curT)
		if isPtr {
			if _, nested := ft.Underlying().(*types.Struct); nested {
				cur = TV{T: f.subRef(si, i, cur.T), S: "Int", Ty: types.NewPointer(ft)}
				curT = ft
				continue
			}
			c := f.vc.comp(env.st, compField(si, i), arr1(si.fsorts[i]))
			cur = TV{T: sel(c, cur.T), S: si.fsorts[i], Ty: ft}
			isPtr = false
			curT = ft
			continue
		}
		cur = TV{T: "(" + si.fields[i] + " " + cur.T + ")", S: si.fsorts[i], Ty: ft}
		curT = ft
	}
	if isPtr {
		// pointer to nested struct: load the struct value
		if _, ok := curT.Underlying().(*types.Struct); ok {
			return TV{T: f.loadStruct(env.st, curT, cur.T), S: f.sortOf(curT), Ty: curT}
		}
	}
	return cur
}

func (e *Env) pkgOf(t types.Type) *types.Package {
	if n, ok := t.(*types.Named); ok && n.Obj().Pkg() != nil {
		return n.Obj().Pkg()
	}
	return e.pkg
}

// seqOf: view of a slice as (row, off, len) in the env's heap
func (f *frame) seqOf(v TV, env *Env) (row, off, ln string, es string, et types.Type) {
	if v.S == "Seq" {
		el := v.Ty.Underlying().(*types.Slice).Elem()
		return v.Tuple[0].T, v.Tuple[1].T, v.Tuple[2].T, f.sortOf(el), el
	}
	sl, ok := v.Ty.Underlying().(*types.Slice)
	if !ok {
		cfail("not a slice: %s", v.Ty)
	}
	es = f.sortOf(sl.Elem())
	m := f.vc.comp(env.st, compMem(es), arr2(es))
	return sel(m, "(s_base "+v.T+")"), "(s_off " + v.T + ")", "(s_len " + v.T + ")", es, sl.Elem()
}

func (f *frame) transIndex(x *CIndex, env *Env) TV {
	v := f.trans(x.X, env)
	if id, ok := x.I.(*CIdent); ok && (v.S == "Slice" || v.S == "Seq") {
		if a, ok := env.absIdx[id.Name]; ok {
			row, off, _, es, et := f.seqOf(v, env)
			if off == a.off {
				return TV{T: sel(row, a.abs), S: es, Ty: et}
			}
		}
	}
	i := f.trans(x.I, env)
	switch {
	case v.S == "Slice" || v.S == "Seq":
		row, off, _, es, et := f.seqOf(v, env)
		if off == "0" {
			return TV{T: sel(row, f.toInt(i)), S: es, Ty: et}
		}
		return TV{T: sel(row, "(+ "+off+" "+f.toInt(i)+")"), S: es, Ty: et}
	case v.S == "Str":
		return TV{T: "(sbyte " + v.T + " " + f.toInt(i) + ")", S: bvSort(8), Ty: types.Typ[types.Uint8]}
	case v.Ty != nil:
		switch t := v.Ty.Underlying().(type) {
		case *types.Map:
			ks, vs := f.sortOf(t.Key()), f.sortOf(t.Elem())
			k := f.coerceTV(i, ks)
			d := sel(sel(f.vc.comp(env.st, compMdom(ks, vs), "(Array Int (Array "+ks+" Bool))"), v.T), k)
			val := sel(sel(f.vc.comp(env.st, compMval(ks, vs), "(Array Int (Array "+ks+" "+vs+"))"), v.T), k)
			return TV{T: ite(and(not(eq(v.T, "0")), d), val, f.sr().zero(t.Elem())), S: vs, Ty: t.Elem()}
		case *types.Array:
			return TV{T: sel(v.T, f.toInt(i)), S: f.sortOf(t.Elem()), Ty: t.Elem()}
		}
	}
	cfail("cannot index %s", x.X)
	return TV{}
}

func (f *frame) transSlice(x *CSlice, env *Env) TV {
	v := f.trans(x.X, env)
	switch v.S {
	case "Str":
		lo, hi := "0", "(slen "+v.T+")"
		if x.Lo != nil {
			lo = f.toInt(f.trans(x.Lo, env))
		}
		if x.Hi != nil {
			hi = f.toInt(f.trans(x.Hi, env))
		}
		return TV{T: f.strSub(v.T, lo, hi), S: "Str", Ty: v.Ty}
	case "Slice":
		lo, hi := "0", "(s_len "+v.T+")"
		if x.Lo != nil {
			lo = f.toInt(f.trans(x.Lo, env))
		}
		if x.Hi != nil {
			hi = f.toInt(f.trans(x.Hi, env))
		}
		return TV{T: fmt.Sprintf("(mk_slice (s_base %s) (+ (s_off %s) %s) (- %s %s) (- (s_cap %s) %s))", v.T, v.T, lo, hi, lo, v.T, lo), S: "Slice", Ty: v.Ty}
	case "Seq":
		lo, hi := "0", v.Tuple[2].T
		if x.Lo != nil {
			lo = f.toInt(f.trans(x.Lo, env))
		}
		if x.Hi != nil {
			hi = f.toInt(f.trans(x.Hi, env))
		}
		n := v
		n.Tuple = []TV{v.Tuple[0], {T: "(+ " + v.Tuple[1].T + " " + lo + ")", S: "Int"}, {T: "(- " + hi + " " + lo + ")", S: "Int"}}
		return n
	}
	cfail("cannot slice %s", x.X)
	return TV{}
}

// coerceTV adapts literals and nil to the wanted sort.
func (f *frame) coerceTV(v TV, sort string) string {
	if v.S == sort {
		return v.T
	}
	if v.S == "nil" {
		switch sort {
		case "Int", "Slice", "Iface":
			return zeroOfSort(sort)
		}
		cfail("nil used as %s", sort)
	}
	if (v.S == "Int" || isBV(v.S)) && (sort == "Int" || isBV(sort)) {
		if !v.Lit && v.S != sort && isBV(v.S) != isBV(sort) {
			// mixed Int/BV: move to Int
			return f.coerce(v, sort)
		}
		return f.coerce(v, sort)
	}
	cfail("sort mismatch: have %s want %s (%s)", v.S, sort, v.T)
	return ""
}

func (f *frame) transBin(x *CBin, env *Env) TV {
	switch x.Op {
	case "&&":
		return TV{T: and(f.transBool(x.L, env), f.transBool(x.R, env)), S: "Bool"}
	case "||":
		return TV{T: or(f.transBool(x.L, env), f.transBool(x.R, env)), S: "Bool"}
	case "==>":
		return TV{T: implies(f.transBool(x.L, env), f.transBool(x.R, env)), S: "Bool"}
	case "<==>":
		return TV{T: eq(f.transBool(x.L, env), f.transBool(x.R, env)), S: "Bool"}
	}
	a, b := f.trans(x.L, env), f.trans(x.R, env)
	// unify sorts
	switch {
	case a.S == "nil" && b.S == "nil":
		cfail("nil == nil")
	case a.S == "nil":
		a = TV{T: f.coerceTV(a, b.S), S: b.S, Ty: b.Ty}
	case b.S == "nil":
		b = TV{T: f.coerceTV(b, a.S), S: a.S, Ty: a.Ty}
	case a.S == b.S:
	case a.Lit && !b.Lit:
		a = TV{T: f.coerceTV(a, b.S), S: b.S, Ty: b.Ty}
	case b.Lit && !a.Lit:
		b = TV{T: f.coerceTV(b, a.S), S: a.S, Ty: a.Ty}
	case isBV(a.S) && b.S == "Int":
		// shifts keep the left sort; everything else is lifted to Int
		if x.Op != "<<" && x.Op != ">>" {
			a = TV{T: f.toInt(a), S: "Int"}
		}
	case a.S == "Int" && isBV(b.S):
		if x.Op != "<<" && x.Op != ">>" {
			b = TV{T: f.toInt(b), S: "Int"}
		}
	case isBV(a.S) && isBV(b.S):
		// widen to the larger
		if bvWidth(a.S) < bvWidth(b.S) {
			a = TV{T: f.coerce(a, b.S), S: b.S, Ty: b.Ty}
		} else {
			b = TV{T: f.coerce(b, a.S), S: a.S, Ty: a.Ty}
		}
	case a.S == "Seq" || b.S == "Seq":
	default:
		cfail("operands of %s have sorts %s and %s in %s", x.Op, a.S, b.S, x)
	}
	ops := map[string]token.Token{"==": token.EQL, "!=": token.NEQ, "<": token.LSS, "<=": token.LEQ, ">": token.GTR, ">=": token.GEQ,
		"+": token.ADD, "-": token.SUB, "*": token.MUL, "/": token.QUO, "%": token.REM, "&": token.AND, "|": token.OR, "^": token.XOR,
		"<<": token.SHL, ">>": token.SHR, "&^": token.AND_NOT}
	op := ops[x.Op]
	rs := a.S
	switch op {
	case token.EQL, token.NEQ, token.LSS, token.LEQ, token.GTR, token.GEQ:
		rs = "Bool"
	}
	t := f.binopTerm(op, a, b, rs, a.Ty, nil, 0)
	ty := a.Ty
	if rs == "Bool" {
		ty = nil
	}
	return TV{T: t, S: rs, Ty: ty, Lit: a.Lit && b.Lit && rs != "Bool"}
}

func (f *frame) transCall(x *CCall, env *Env) TV {
	vc := f.vc
	id, ok := x.Fun.(*CIdent)
	if !ok {
		// conversion to a qualified type or method: not supported
		cfail("call of %s not supported in contracts", x.Fun)
	}
	arg := func(i int) TV { return f.trans(x.Args[i], env) }
	need := func(n int) {
		if len(x.Args) != n {
			cfail("%s expects %d arguments", id.Name, n)
		}
	}
	switch id.Name {
	case "old":
		need(1)
		if env.old == nil {
			cfail("old() not available here")
		}
		ne := *env
		ne.st = env.old
		if env.oldVars != nil {
			ne.vars = map[string]TV{}
			for k, v := range env.vars {
				ne.vars[k] = v
			}
			for k, v := range env.oldVars {
				ne.vars[k] = v
			}
		}
		for g := range env.st.ghost {
			if ov, ok := env.old.ghost[g]; ok {
				ne.vars[g] = ov
			}
		}
		return f.trans(x.Args[0], &ne)
	case "len":
		need(1)
		v := arg(0)
		switch v.S {
		case "Slice":
			return TV{T: "(s_len " + v.T + ")", S: "Int", Ty: types.Typ[types.Int]}
		case "Seq":
			return TV{T: v.Tuple[2].T, S: "Int", Ty: types.Typ[types.Int]}
		case "Str":
			return TV{T: "(slen " + v.T + ")", S: "Int", Ty: types.Typ[types.Int]}
		}
		if v.Ty != nil {
			if a, ok := v.Ty.Underlying().(*types.Array); ok {
				return TV{T: fmt.Sprint(a.Len()), S: "Int", Lit: true}
			}
		}
		cfail("len of %s", x.Args[0])
	case "cap":
		need(1)
		v := arg(0)
		return TV{T: "(s_cap " + v.T + ")", S: "Int", Ty: types.Typ[types.Int]}
	case "ite":
		need(3)
		c := f.transBool(x.Args[0], env)
		a, b := arg(1), arg(2)
		if a.S != b.S {
			if a.Lit || a.S == "nil" {
				a = TV{T: f.coerceTV(a, b.S), S: b.S, Ty: b.Ty}
			} else {
				b = TV{T: f.coerceTV(b, a.S), S: a.S, Ty: a.Ty}
			}
		}
		return TV{T: ite(c, a.T, b.T), S: a.S, Ty: a.Ty, Lit: a.Lit && b.Lit}
	case "has":
		need(2)
		m := arg(0)
		t, ok := m.Ty.Underlying().(*types.Map)
		if !ok {
			cfail("has() on non-map")
		}
		ks, vs := f.sortOf(t.Key()), f.sortOf(t.Elem())
		k := f.coerceTV(arg(1), ks)
		d := sel(sel(vc.comp(env.st, compMdom(ks, vs), "(Array Int (Array "+ks+" Bool))"), m.T), k)
		return TV{T: and(not(eq(m.T, "0")), d), S: "Bool"}
	case "chancap":
		// chancap(ch): the buffer size the channel was made with
		need(1)
		v := arg(0)
		if _, ok := v.Ty.Underlying().(*types.Chan); !ok {
			cfail("chancap() on non-channel")
		}
		return TV{T: "(chan_cap " + v.T + ")", S: "Int", Ty: types.Typ[types.Int]}
	case "disjoint":
		need(2)
		a, b := arg(0), arg(1)
		return TV{T: fmt.Sprintf("(not (= (s_base %s) (s_base %s)))", a.T, b.T), S: "Bool"}
	case "samearray":
		// samearray(a, b): the slices start at the same element of the same backing array
		need(2)
		a, b := arg(0), arg(1)
		return TV{T: fmt.Sprintf("(and (= (s_base %s) (s_base %s)) (= (s_off %s) (s_off %s)))", a.T, b.T, a.T, b.T), S: "Bool"}
	case "same":
		need(2)
		a, b := arg(0), arg(1)
		return TV{T: eq(a.T, b.T), S: "Bool"}
	case "typeof":
		need(1)
		v := arg(0)
		if v.S != "Iface" {
			cfail("typeof on non-interface")
		}
		return TV{T: "(i_tag " + v.T + ")", S: "Int"}
	case "int":
		need(1)
		v := arg(0)
		return TV{T: f.toInt(v), S: "Int", Ty: types.Typ[types.Int], Lit: v.Lit}
	case "byte", "uint8", "uint16", "uint32", "uint64":
		need(1)
		v := arg(0)
		ty := types.Universe.Lookup(id.Name).Type()
		return TV{T: f.coerce(v, f.sortOf(ty)), S: f.sortOf(ty), Ty: ty}
	case "string":
		need(1)
		v := arg(0)
		switch v.S {
		case "Str":
			return v
		case "Slice":
			return TV{T: f.bytesToStr(env.st, v.T), S: "Str", Ty: types.Typ[types.String]}
		}
		cfail("string() of sort %s", v.S)
	case "implements":
		// implements(x, T): the dynamic type of interface value x implements interface type T
		if len(x.Args) != 2 {
			cfail("implements needs a value and an interface type")
		}
		v := arg(0)
		ty := f.resolveType(x.Args[1].String(), env.pkg)
		it, ok := ty.Underlying().(*types.Interface)
		if !ok || v.S != "Iface" {
			cfail("implements(x, T): x must be an interface value and T an interface type")
		}
		return TV{T: f.implements(v.T, ty, it), S: "Bool"}
	case "cur":
		// cur(e): in e a reassigned parameter denotes its current value
		need(1)
		ne := *env
		ne.curParams = true
		return f.trans(x.Args[0], &ne)
	case "unchanged":
		// unchanged(e): e (a map: with its contents) has the value it had in the pre-state
		need(1)
		if env.old == nil {
			cfail("unchanged() not available here")
		}
		ne := *env
		ne.st = env.old
		if env.oldVars != nil {
			ne.vars = map[string]TV{}
			for k, v := range env.vars {
				ne.vars[k] = v
			}
			for k, v := range env.oldVars {
				ne.vars[k] = v
			}
		}
		o := f.snapshot(f.trans(x.Args[0], &ne), env.old)
		return TV{T: f.sameSnapshot(o, arg(0), env.st), S: "Bool"}
	case "freshInCall":
		// freshInCall(p): the object pointer p points to was allocated during
		// this call of the function (its reference lies above the allocation
		// counter at entry): nothing that existed before the call - a pool, a
		// global, another goroutine - can hold a reference to it unless this call
		// handed one out
		need(1)
		v := arg(0)
		if v.Ty == nil {
			cfail("freshInCall needs a pointer")
		}
		if _, ok := v.Ty.Underlying().(*types.Pointer); !ok {
			cfail("freshInCall needs a pointer")
		}
		return TV{T: "(>= " + v.T + " |alloc!top|)", S: "Bool"}
	case "freshInLoop":
		// freshInLoop(s): the backing array of slice s (if any element) was
		// allocated during the current iteration of the innermost loop that
		// contains the anchor - nobody else can hold a reference to it yet
		need(1)
		v := arg(0)
		if v.S != "Slice" || env.anchorBlock == nil {
			cfail("freshInLoop needs a slice and a call-site anchor inside a loop")
		}
		var hdr *ssa.BasicBlock
		for h, li := range f.loops {
			if li.body[env.anchorBlock] && (hdr == nil || f.loops[hdr].body[h]) {
				hdr = h
			}
		}
		if hdr == nil || f.loopAlloc[hdr] == "" {
			cfail("freshInLoop used outside a loop")
		}
		return TV{T: fmt.Sprintf("(or (= (s_cap %s) 0) (>= (s_base %s) %s))", v.T, v.T, f.loopAlloc[hdr]), S: "Bool"}
	case "mk":
		// mk(T, f0, f1, ...): struct value of type T with positional fields
		if len(x.Args) < 1 {
			cfail("mk needs a type")
		}
		ty := f.resolveType(x.Args[0].String(), env.pkg)
		st, ok := ty.Underlying().(*types.Struct)
		if !ok || st.NumFields() != len(x.Args)-1 {
			cfail("mk(%s, ...): wrong number of fields", x.Args[0])
		}
		si := f.sr().structSort(ty)
		var fs []string
		for i := 0; i < st.NumFields(); i++ {
			fs = append(fs, f.coerceTV(f.trans(x.Args[i+1], env), si.fsorts[i]))
		}
		return TV{T: si.mk(fs), S: si.sort, Ty: ty}
	case "inset":
		// inset(chars, c): byte c occurs in string chars (expanded for literals)
		need(2)
		if lit, ok := x.Args[0].(*CLit); ok && lit.Kind == token.STRING {
			s, _ := strconv.Unquote(lit.Val)
			c := arg(1)
			var ds []string
			for i := 0; i < len(s); i++ {
				ds = append(ds, eq(f.coerceTV(c, bvSort(8)), bvLit(uint64(s[i]), 8)))
			}
			return TV{T: or(ds...), S: "Bool"}
		}
		s, c := arg(0), arg(1)
		// literal known to the VC?
		for text, name := range vc.lits {
			if name == s.T {
				var ds []string
				for i := 0; i < len(text); i++ {
					ds = append(ds, eq(f.coerceTV(c, bvSort(8)), bvLit(uint64(text[i]), 8)))
				}
				return TV{T: or(ds...), S: "Bool"}
			}
		}
		vc.nameCnt++
		k := q(fmt.Sprintf("k!q%d", vc.nameCnt))
		return TV{T: fmt.Sprintf("(exists ((%s Int)) (and (<= 0 %s) (< %s (slen %s)) (= (sbyte %s %s) %s)))", k, k, k, s.T, s.T, k, f.coerceTV(c, bvSort(8))), S: "Bool"}
	}
	// visitedN(k): key k has been produced by the N-th map range loop
	if g, ok := env.vars[id.Name]; ok && strings.HasPrefix(g.S, "(Array ") && len(x.Args) == 1 {
		ks := f.visitedKeySort[id.Name]
		return TV{T: sel(g.T, f.coerceTV(arg(0), ks)), S: "Bool"}
	}
	// user spec function
	if sp := f.eng().specFor(env.pkg, id.Name); sp != nil {
		return f.applySpec(sp, x, env)
	}
	// conversion to a named type of the package, e.g. SessionState(x)
	if obj := env.pkg.Scope().Lookup(id.Name); obj != nil {
		if tn, ok := obj.(*types.TypeName); ok && len(x.Args) == 1 {
			v := arg(0)
			s := f.sortOf(tn.Type())
			return TV{T: f.coerceTV(v, s), S: s, Ty: tn.Type()}
		}
	}
	cfail("unknown function %s in contract", id.Name)
	return TV{}
}

// ---------------------------------------------------------------------------
// spec functions

type specInfo struct {
	c   *SpecC
	pkg *types.Package
	rec bool
}

func (f *frame) specParamTV(v TV, ty types.Type, env *Env) TV {
	if _, ok := ty.Underlying().(*types.Slice); ok {
		if v.S == "Seq" {
			return v
		}
		row, off, ln, es, _ := f.seqOf(v, env)
		return TV{S: "Seq", Ty: ty, Tuple: []TV{{T: row, S: arr1(es)}, {T: off, S: "Int"}, {T: ln, S: "Int"}}}
	}
	s := f.sortOf(ty)
	return TV{T: f.coerceTV(v, s), S: s, Ty: ty}
}

func (f *frame) applySpec(sp *specInfo, x *CCall, env *Env) TV {
	vc := f.vc
	if sp.pkg == nil {
		// spec of the shared std contract file: resolve its types from the using package
		cp := *sp
		cp.pkg = env.pkg
		sp = &cp
	}
	if len(x.Args) != len(sp.c.Params) {
		cfail("spec %s expects %d arguments", sp.c.Name, len(sp.c.Params))
	}
	retTy := f.resolveType(sp.c.Ret, sp.pkg)
	rs := f.sortOf(retTy)
	var args []TV
	for i, p := range sp.c.Params {
		pt := f.resolveType(p.Type, sp.pkg)
		args = append(args, f.specParamTV(f.trans(x.Args[i], env), pt, env))
	}
	var asorts []string
	var aterms []string
	for _, a := range args {
		if a.S == "Seq" {
			asorts = append(asorts, a.Tuple[0].S, "Int", "Int")
			aterms = append(aterms, a.Tuple[0].T, a.Tuple[1].T, a.Tuple[2].T)
		} else {
			asorts = append(asorts, a.S)
			aterms = append(aterms, a.T)
		}
	}
	name := "spec:" + sp.pkg.Path() + "." + sp.c.Name
	if f.eng().specs["std."+sp.c.Name] != nil && f.eng().specs["std."+sp.c.Name].c == sp.c {
		name = "spec:std." + sp.c.Name
	}
	fn := q(name)
	state := vc.specState[name] // "", "defining", "defined", "macro"
	if state == "" {
		if sp.c.Body == nil {
			vc.declareFun(name, asorts, rs)
			vc.specState[name] = "defined"
			vc.note("uninterpreted spec function: " + name)
		} else {
			vc.specState[name] = "defining"
			ok := f.defineSpec(sp, name, rs)
			if ok {
				vc.specState[name] = "defined"
			} else {
				if sp.rec {
					cfail("recursive spec %s may not read the heap", sp.c.Name)
				}
				vc.specState[name] = "macro"
			}
		}
		state = vc.specState[name]
	}
	if state == "macro" {
		ne := &Env{f: f, vars: map[string]TV{}, st: env.st, old: env.old, pkg: sp.pkg, specDepth: env.specDepth + 1}
		for i, p := range sp.c.Params {
			ne.vars[p.Name] = args[i]
		}
		r := f.trans(sp.c.Body, ne)
		return TV{T: f.coerceTV(r, rs), S: rs, Ty: retTy}
	}
	if state == "defining" && !sp.rec {
		cfail("spec %s is used before its definition is complete (mutual recursion?)", sp.c.Name)
	}
	if len(aterms) == 0 {
		return TV{T: fn, S: rs, Ty: retTy}
	}
	return TV{T: "(" + fn + " " + strings.Join(aterms, " ") + ")", S: rs, Ty: retTy}
}

// defineSpec emits (define-fun / define-fun-rec) for a spec whose body only
// depends on its parameters. Returns false when the body reads the heap.
func (f *frame) defineSpec(sp *specInfo, name, rs string) (ok bool) {
	vc := f.vc
	defer func() {
		if r := recover(); r != nil {
			if _, isHeap := r.(heapInSpec); isHeap {
				ok = false
				return
			}
			panic(r)
		}
	}()
	vars, binds := f.bindParams(sp.c.Params, sp.pkg, true, nil)
	ne := &Env{f: f, vars: vars, st: nil, pkg: sp.pkg, specDepth: 1}
	f.boundDepth++
	body := func() TV {
		defer func() { f.boundDepth-- }()
		return f.trans(sp.c.Body, ne)
	}()
	kw := "define-fun"
	if sp.rec {
		kw = "define-fun-rec"
	}
	vc.declSeen[q(name)] = true
	vc.decls = append(vc.decls, fmt.Sprintf("(%s %s (%s) %s %s)", kw, q(name), strings.Join(binds, " "), rs, f.coerceTV(body, rs)))
	return true
}

type heapInSpec struct{}

// transLV: contract expression denoting a location (for modifies clauses)
func (f *frame) transLV(e CE, env *Env) *LV {
	switch x := e.(type) {
	case *CSel:
		base := f.trans(x.X, env)
		p, ok := base.Ty.Underlying().(*types.Pointer)
		if !ok {
			cfail("modifies %s: base is not a pointer", e)
		}
		st, ok := p.Elem().Underlying().(*types.Struct)
		if !ok {
			cfail("modifies %s: not a struct", e)
		}
		for i := 0; i < st.NumFields(); i++ {
			if st.Field(i).Name() == x.Sel {
				lv, tv := f.fieldAddr(&LV{kind: lvStruct, ref: base.T, ty: p.Elem(), rootTy: p.Elem()}, i)
				if lv != nil {
					return lv
				}
				return &LV{kind: lvStruct, ref: tv.T, ty: st.Field(i).Type(), rootTy: st.Field(i).Type()}
			}
		}
		cfail("modifies %s: no such field", e)
	case *CUn:
	case *CIdent:
		v := f.trans(e, env)
		if p, ok := v.Ty.Underlying().(*types.Pointer); ok {
			return f.lvOfRef(v.T, p.Elem())
		}
	}
	cfail("modifies %s: unsupported location", e)
	return nil
}

// localsEnv adds source-level locals visible at the current point (best effort)
func (f *frame) localsEnv(env *Env, st *bstate) {}

// absIndexBase looks for a slice indexed directly by the bound variable name
// (s[name]) and returns the offset term of that slice.
func (f *frame) absIndexBase(body CE, name string, env *Env) (off string, ok bool) {
	var found CE
	var walk func(CE)
	walk = func(e CE) {
		if found != nil || e == nil {
			return
		}
		switch n := e.(type) {
		case *CIndex:
			if id, isId := n.I.(*CIdent); isId && id.Name == name && !mentionsIdent(n.X, name) {
				found = n.X
				return
			}
			walk(n.X)
			walk(n.I)
		case *CBin:
			walk(n.L)
			walk(n.R)
		case *CUn:
			walk(n.X)
		case *CCall:
			for _, a := range n.Args {
				walk(a)
			}
		case *CSel:
			walk(n.X)
		case *CSlice:
			walk(n.X)
			walk(n.Lo)
			walk(n.Hi)
		case *CQuant:
			for _, v := range n.Vars {
				if v.Name == name {
					return
				}
			}
			walk(n.Body)
		case *CTypeAssert:
			walk(n.X)
		}
	}
	walk(body)
	if found == nil {
		return "", false
	}
	defer func() {
		if r := recover(); r != nil {
			if _, isC := r.(cerr); isC {
				ok = false
				return
			}
			panic(r)
		}
	}()
	v := f.trans(found, env)
	if v.S != "Slice" && v.S != "Seq" {
		return "", false
	}
	_, o, _, _, _ := f.seqOf(v, env)
	return o, true
}

func mentionsIdent(e CE, name string) bool {
	found := false
	var walk func(CE)
	walk = func(x CE) {
		if x == nil || found {
			return
		}
		switch n := x.(type) {
		case *CIdent:
			if n.Name == name {
				found = true
			}
		case *CCall:
			walk(n.Fun)
			for _, a := range n.Args {
				walk(a)
			}
		case *CBin:
			walk(n.L)
			walk(n.R)
		case *CUn:
			walk(n.X)
		case *CSel:
			walk(n.X)
		case *CIndex:
			walk(n.X)
			walk(n.I)
		case *CSlice:
			walk(n.X)
			walk(n.Lo)
			walk(n.Hi)
		case *CQuant:
			walk(n.Body)
		case *CTypeAssert:
			walk(n.X)
		}
	}
	walk(e)
	return found
}
