package vc

import (
	"fmt"
	"go/token"
	"go/types"
	"os"
	"path/filepath"
	"sort"
	"strings"

	"golang.org/x/tools/go/packages"
	"golang.org/x/tools/go/ssa"
	"golang.org/x/tools/go/ssa/ssautil"
)

type Options struct {
	RepoDir   string
	Prop      string // property id whose tagged clauses are active ("" = all)
	Tier      string // quick / thorough
	NilChecks bool
	StrBytes  bool
	Sweep     bool // safety-only sweep: no contracts required
	StdFile   string
}

type implQ struct {
	named types.Type
	it    *types.Interface
}

type Engine struct {
	opts           Options
	defOnlyUsed    map[string]bool // callees used through a purely definitional contract (body not verified)
	view           string // named view whose clauses are switched on (VerifyFuncView)
	Prog           *ssa.Program
	Pkgs           []*packages.Package
	SSAPkgs        []*ssa.Package
	repoPkgs       map[*types.Package]bool
	modPath        string
	cfiles         []*CFile
	funcC          map[*ssa.Function]*FuncC
	funcCPkg       map[*FuncC]*types.Package
	externs        map[string]*FuncC
	externPkg      map[*FuncC]*types.Package
	specs          map[string]*specInfo // pkgpath.name
	lemmas         []*lemmaInfo
	wires          []*wireInfo
	axioms         []*axiomInfo
	nopanic        map[*ssa.Function][]string // function -> property tags
	tags           map[string]int
	tagTypes       []types.Type
	funcIDs        map[string]int
	implQueries    map[string]implQ
	inlineOK       map[*ssa.Function]bool
	closureFn      map[string]*ssa.Function
	typeCache      map[string]types.Type
	mutGlobals     map[string]bool
	pureCache      map[*ssa.Function]bool
	typeInvs       []*typeInvInfo
	sumCache       map[*ssa.Function]*modSummary
	unproved       map[string]bool
	globalDynType  map[string]types.Type
	globalSliceLen map[string]int64            // length of slice globals initialised once from a composite literal
	globalInit     map[string][]globalInitCell // constant field initialisers of struct globals // dynamic type of interface globals set once in init // obligations explicitly left unproved at enrolment (nil checks)
	sumFrame       *frame
	AllRepoPkgs    []*packages.Package
	byName         map[string]*types.Package
	Errors         []string
}

type typeInvInfo struct {
	c   *TypeInvC
	pkg *types.Package
	ty  types.Type // named (value) type
	ptr bool
}

type globalInitCell struct {
	cell int // index into objCells order (flattened leaf fields)
	val  *ssa.Const
}

type lemmaInfo struct {
	c   *LemmaC
	pkg *types.Package
}
type axiomInfo struct {
	c   *AxiomC
	pkg *types.Package
}

func NewEngine(opts Options, patterns []string) (*Engine, error) {
	e := &Engine{opts: opts, repoPkgs: map[*types.Package]bool{}, funcC: map[*ssa.Function]*FuncC{}, funcCPkg: map[*FuncC]*types.Package{},
		externs: map[string]*FuncC{}, externPkg: map[*FuncC]*types.Package{}, specs: map[string]*specInfo{}, nopanic: map[*ssa.Function][]string{},
		tags: map[string]int{}, funcIDs: map[string]int{}, implQueries: map[string]implQ{}, inlineOK: map[*ssa.Function]bool{},
		closureFn: map[string]*ssa.Function{}, typeCache: map[string]types.Type{}, mutGlobals: map[string]bool{}, pureCache: map[*ssa.Function]bool{}, sumCache: map[*ssa.Function]*modSummary{}, unproved: map[string]bool{}, globalDynType: map[string]types.Type{}, globalInit: map[string][]globalInitCell{}, globalSliceLen: map[string]int64{}, byName: map[string]*types.Package{}}
	cfg := &packages.Config{Mode: packages.LoadAllSyntax | packages.NeedModule, Dir: opts.RepoDir, BuildFlags: []string{"-tags=verif"},
		Env: append(os.Environ(), "GOFLAGS=-mod=mod", "GOPROXY=off", "GOSUMDB=off", "GOTOOLCHAIN=local")}
	pkgs, err := packages.Load(cfg, patterns...)
	if err != nil {
		return nil, err
	}
	var errs []string
	packages.Visit(pkgs, nil, func(p *packages.Package) {
		for _, er := range p.Errors {
			errs = append(errs, er.Error())
		}
	})
	if len(errs) > 0 {
		return nil, fmt.Errorf("package errors: %s", strings.Join(errs, "; "))
	}
	e.Pkgs = pkgs
	prog, spkgs := ssautil.AllPackages(pkgs, ssa.GlobalDebug|ssa.InstantiateGenerics)
	prog.Build()
	e.Prog = prog
	e.SSAPkgs = spkgs
	if len(pkgs) > 0 && pkgs[0].Module != nil {
		e.modPath = pkgs[0].Module.Path
	}
	packages.Visit(pkgs, nil, func(p *packages.Package) {
		if p.Types != nil {
			if _, dup := e.byName[p.Types.Name()]; !dup {
				e.byName[p.Types.Name()] = p.Types
			}
			if p.Module != nil && p.Module.Path == e.modPath {
				e.repoPkgs[p.Types] = true
			}
		}
	})
	// prefer root packages for name lookup
	for _, p := range pkgs {
		for _, imp := range p.Types.Imports() {
			e.byName[imp.Name()] = imp
		}
	}
	e.scanGlobalStores()
	if err := e.loadContracts(); err != nil {
		return nil, err
	}
	return e, nil
}

func (e *Engine) isRepoPkg(p *types.Package) bool { return e.repoPkgs[p] }

func (e *Engine) pkgByName(name string) *types.Package { return e.byName[name] }

func (e *Engine) evalPkg(p *types.Package) *types.Package { return p }

func (e *Engine) tagOf(t types.Type) int {
	key := types.TypeString(t, nil)
	if id, ok := e.tags[key]; ok {
		return id
	}
	id := len(e.tags) + 1
	e.tags[key] = id
	e.tagTypes = append(e.tagTypes, t)
	return id
}

func (e *Engine) funcID(name string) int {
	if id, ok := e.funcIDs[name]; ok {
		return id
	}
	id := len(e.funcIDs) + 1000
	e.funcIDs[name] = id
	return id
}

func (e *Engine) clauseActive(c *Clause) bool {
	hasProp := false
	propOK := false
	for _, t := range c.Tags {
		if t == "thorough" {
			if e.opts.Tier != "thorough" {
				return false
			}
			continue
		}
		if t == "cut" {
			continue
		}
		if strings.HasPrefix(t, "view:") {
			// a clause of a named view takes part only in that view's pass
			if e.view != strings.TrimPrefix(t, "view:") {
				return false
			}
			continue
		}
		hasProp = true
		if t == e.opts.Prop || e.opts.Prop == "" {
			propOK = true
		}
	}
	return !hasProp || propOK
}

// noSwallowActive: the function's noswallow clause applies to the current property.
func (e *Engine) noSwallowActive(fc *FuncC) bool {
	if fc == nil || !fc.NoSwallow {
		return false
	}
	return e.clauseActive(&Clause{Tags: fc.NoSwallowTags})
}

func (e *Engine) mutableGlobal(comp string) bool { return e.mutGlobals[comp] }

// scanGlobalStores marks globals written outside package initialisers.
func (e *Engine) scanGlobalStores() {
	for fn := range ssautil.AllFunctions(e.Prog) {
		if fn.Name() == "init" || strings.HasPrefix(fn.Name(), "init#") {
			// interface globals initialised from a concrete value: remember its type
			for _, b := range fn.Blocks {
				for _, in := range b.Instrs {
					if s, ok := in.(*ssa.Store); ok {
						if root, idx, ok := leafIndex(s.Addr); ok {
							if g, isG := root.(*ssa.Global); isG {
								if cv, isC := s.Val.(*ssa.Const); isC {
									e.globalInit[compGlobal(g)] = append(e.globalInit[compGlobal(g)], globalInitCell{idx, cv})
								}
							}
						}
						// G = new([N]T)[:] : a slice literal
						if g, isG := s.Addr.(*ssa.Global); isG {
							if sl, isSl := s.Val.(*ssa.Slice); isSl && sl.Low == nil && sl.High == nil {
								if pt, ok := sl.X.Type().Underlying().(*types.Pointer); ok {
									if at, ok := pt.Elem().Underlying().(*types.Array); ok {
										e.globalSliceLen[compGlobal(g)] = at.Len()
									}
								}
							}
						}
						// G = *local where local is a composite literal filled with constants
						if g, isG := s.Addr.(*ssa.Global); isG {
							if ld, isLd := s.Val.(*ssa.UnOp); isLd && ld.Op == token.MUL {
								if al, isAl := ld.X.(*ssa.Alloc); isAl {
									for _, b2 := range fn.Blocks {
										for _, in2 := range b2.Instrs {
											s2, ok := in2.(*ssa.Store)
											if !ok {
												continue
											}
											if root, idx, ok := leafIndex(s2.Addr); ok && root == ssa.Value(al) {
												if cv, isC := s2.Val.(*ssa.Const); isC {
													e.globalInit[compGlobal(g)] = append(e.globalInit[compGlobal(g)], globalInitCell{idx, cv})
												}
											}
										}
									}
								}
							}
						}
						if g, ok := s.Addr.(*ssa.Global); ok {
							if _, isI := g.Type().(*types.Pointer).Elem().Underlying().(*types.Interface); isI {
								key := compGlobal(g)
								var dyn types.Type
								switch v := s.Val.(type) {
								case *ssa.MakeInterface:
									dyn = v.X.Type()
								case *ssa.Call:
									if callee := v.Call.StaticCallee(); callee != nil && callee.String() == "errors.New" {
										if ep := e.Prog.ImportedPackage("errors"); ep != nil {
											if tn, ok := ep.Pkg.Scope().Lookup("errorString").(*types.TypeName); ok {
												dyn = types.NewPointer(tn.Type())
											}
										}
									}
								}
								if _, dup := e.globalDynType[key]; dup {
									delete(e.globalDynType, key)
									e.mutGlobals[key] = true
								} else if dyn != nil {
									e.globalDynType[key] = dyn
								}
							}
						}
					}
				}
			}
			continue
		}
		for _, b := range fn.Blocks {
			for _, in := range b.Instrs {
				if s, ok := in.(*ssa.Store); ok {
					if g, ok := s.Addr.(*ssa.Global); ok {
						e.mutGlobals[compGlobal(g)] = true
					}
				}
			}
		}
	}
}

// ---------------------------------------------------------------------------
// contracts

func (e *Engine) loadContracts() error {
	std := e.opts.StdFile
	if std == "" {
		std = "/verif/contracts/std.gvc"
	}
	if _, err := os.Stat(std); err == nil {
		cf, err := ParseContractFile(std)
		if err != nil {
			return err
		}
		for _, fc := range cf.Funcs {
			if fc.Kind != "extern" {
				return fmt.Errorf("%s: only extern contracts are allowed in the std file", std)
			}
			e.externs[fc.Ref] = fc
			e.externPkg[fc] = nil
		}
		for _, s := range cf.Specs {
			e.specs["std."+s.Name] = &specInfo{c: s, pkg: nil}
		}
	}
	var repoPkgs []*packages.Package
	packages.Visit(e.Pkgs, nil, func(p *packages.Package) {
		if p.Types != nil && e.repoPkgs[p.Types] {
			repoPkgs = append(repoPkgs, p)
		}
	})
	sort.Slice(repoPkgs, func(i, j int) bool { return repoPkgs[i].PkgPath < repoPkgs[j].PkgPath })
	e.AllRepoPkgs = repoPkgs
	for _, p := range repoPkgs {
		if len(p.GoFiles) == 0 {
			continue
		}
		dir := filepath.Dir(p.GoFiles[0])
		path := filepath.Join(dir, "contracts_verif.go")
		if _, err := os.Stat(path); err != nil {
			continue
		}
		cf, err := ParseContractFile(path)
		if err != nil {
			return err
		}
		e.cfiles = append(e.cfiles, cf)
		sp := e.Prog.Package(p.Types)
		for _, s := range cf.Specs {
			si := &specInfo{c: s, pkg: p.Types}
			if s.Body != nil && mentionsCall(s.Body, s.Name) {
				si.rec = true
			}
			e.specs[p.Types.Path()+"."+s.Name] = si
		}
		for _, l := range cf.Lemmas {
			e.lemmas = append(e.lemmas, &lemmaInfo{l, p.Types})
		}
		for _, w := range cf.Wires {
			e.wires = append(e.wires, &wireInfo{w, p})
		}
		for _, ti := range cf.TypeInvs {
			name := strings.TrimPrefix(ti.Type, "*")
			obj := p.Types.Scope().Lookup(name)
			tn, ok := obj.(*types.TypeName)
			if !ok {
				return fmt.Errorf("%s:%d: typeinv: type %q not found", ti.File, ti.Line, name)
			}
			e.typeInvs = append(e.typeInvs, &typeInvInfo{c: ti, pkg: p.Types, ty: tn.Type(), ptr: strings.HasPrefix(ti.Type, "*")})
		}
		for _, a := range cf.Axioms {
			e.axioms = append(e.axioms, &axiomInfo{a, p.Types})
		}
		for _, fc := range cf.Funcs {
			switch fc.Kind {
			case "func":
				fn := e.findFunc(sp, fc.Ref)
				if fn == nil {
					return fmt.Errorf("%s:%d: function %q not found in %s", fc.File, fc.Line, fc.Ref, p.Types.Path())
				}
				if prev := e.funcC[fn]; prev != nil {
					return fmt.Errorf("%s:%d: second contract for %q (first at line %d): merge them", fc.File, fc.Line, fc.Ref, prev.Line)
				}
				e.funcC[fn] = fc
				e.funcCPkg[fc] = p.Types
			case "extern":
				e.externs[fc.Ref] = fc
				e.externPkg[fc] = p.Types
			case "funcfield":
				e.externs["funcfield:"+fc.Ref] = fc
				e.externPkg[fc] = p.Types
			case "functype":
				e.externs["functype:"+fc.Ref] = fc
				e.externPkg[fc] = p.Types
			}
		}
		for _, np := range cf.NoPanic {
			tags := []string{}
			ref := np
			if strings.HasPrefix(np, "[") {
				i := strings.Index(np, "]")
				tags = strings.Split(np[1:i], ",")
				ref = strings.TrimSpace(np[i+1:])
			}
			var unproved []string
			if i := strings.Index(ref, " -- unproved:"); i >= 0 {
				for _, u := range strings.Split(ref[i+len(" -- unproved:"):], ";") {
					if u = strings.TrimSpace(u); u != "" {
						unproved = append(unproved, u)
					}
				}
				ref = strings.TrimSpace(ref[:i])
			}
			fn := e.findFunc(sp, ref)
			if fn == nil {
				return fmt.Errorf("%s: nopanic function %q not found in %s", path, ref, p.Types.Path())
			}
			e.nopanic[fn] = append(e.nopanic[fn], tags...)
			for _, u := range unproved {
				e.unproved[funcDisplayName(fn)+"/"+u] = true
			}
		}
	}
	return nil
}

func mentionsCall(e CE, name string) bool {
	found := false
	var walk func(CE)
	walk = func(x CE) {
		switch n := x.(type) {
		case *CCall:
			if id, ok := n.Fun.(*CIdent); ok && id.Name == name {
				found = true
			}
			for _, a := range n.Args {
				walk(a)
			}
		case *CBin:
			walk(n.L)
			walk(n.R)
		case *CUn:
			walk(n.X)
		case *CSel:
			walk(n.X)
		case *CIndex:
			walk(n.X)
			walk(n.I)
		case *CSlice:
			walk(n.X)
			if n.Lo != nil {
				walk(n.Lo)
			}
			if n.Hi != nil {
				walk(n.Hi)
			}
		case *CQuant:
			walk(n.Body)
		case *CTypeAssert:
			walk(n.X)
		}
	}
	walk(e)
	return found
}

// findFunc resolves a function reference relative to a package:
// name, (T).m, (*T).m, name$1
func (e *Engine) findFunc(sp *ssa.Package, ref string) *ssa.Function {
	if sp == nil {
		return nil
	}
	for fn := range e.allFuncsOf(sp) {
		if fn.RelString(sp.Pkg) == ref {
			return fn
		}
	}
	return nil
}

func (e *Engine) allFuncsOf(sp *ssa.Package) map[*ssa.Function]bool {
	out := map[*ssa.Function]bool{}
	var addAnon func(fn *ssa.Function)
	addAnon = func(fn *ssa.Function) {
		out[fn] = true
		for _, a := range fn.AnonFuncs {
			addAnon(a)
		}
	}
	for _, m := range sp.Members {
		switch x := m.(type) {
		case *ssa.Function:
			addAnon(x)
		case *ssa.Type:
			for _, t := range []types.Type{x.Type(), types.NewPointer(x.Type())} {
				ms := e.Prog.MethodSets.MethodSet(t)
				for i := 0; i < ms.Len(); i++ {
					fn := e.Prog.MethodValue(ms.At(i))
					if fn != nil && fn.Pkg == sp && fn.Synthetic == "" {
						addAnon(fn)
					}
				}
			}
		}
	}
	return out
}

// contractFor returns the contract applicable at a call.
func (e *Engine) contractFor(c *ssa.CallCommon) (*FuncC, *types.Package, []string, []string) {
	sig := c.Signature()
	var rnames []string
	for i := 0; i < sig.Results().Len(); i++ {
		rnames = append(rnames, sig.Results().At(i).Name())
	}
	if c.IsInvoke() {
		key := "(" + types.TypeString(c.Value.Type(), nil) + ")." + c.Method.Name()
		fc := e.externs[key]
		if fc == nil {
			return nil, nil, nil, nil
		}
		pn := []string{"self"}
		msig := c.Method.Type().(*types.Signature)
		for i := 0; i < msig.Params().Len(); i++ {
			pn = append(pn, msig.Params().At(i).Name())
		}
		return fc, e.externPkg[fc], pn, rnames
	}
	fn := c.StaticCallee()
	if fn == nil {
		// call through a function-typed struct field: funcfield contract
		if owner, field := funcFieldOf(c.Value); owner != "" {
			if fc := e.externs["funcfield:"+owner+"."+field]; fc != nil {
				var pn []string
				for i := 0; i < sig.Params().Len(); i++ {
					pn = append(pn, sig.Params().At(i).Name())
				}
				return fc, e.externPkg[fc], pn, rnames
			}
		}
		// call of a value of a named function type: functype contract
		if n := funcTypeOf(c.Value); n != "" {
			if fc := e.externs["functype:"+n]; fc != nil {
				var pn []string
				for i := 0; i < sig.Params().Len(); i++ {
					pn = append(pn, sig.Params().At(i).Name())
				}
				return fc, e.externPkg[fc], pn, rnames
			}
		}
		return nil, nil, nil, nil
	}
	if fn.Origin() != nil {
		fn = fn.Origin()
	}
	var pn []string
	for _, p := range fn.Params {
		pn = append(pn, p.Name())
	}
	if len(pn) == 0 && fn.Signature != nil {
		if fn.Signature.Recv() != nil {
			pn = append(pn, fn.Signature.Recv().Name())
		}
		for i := 0; i < fn.Signature.Params().Len(); i++ {
			pn = append(pn, fn.Signature.Params().At(i).Name())
		}
	}
	if fc := e.funcC[fn]; fc != nil {
		if !e.contractUsable(fc) {
			return nil, nil, nil, nil
		}
		return fc, e.funcCPkg[fc], pn, rnames
	}
	if fc := e.externs[fn.String()]; fc != nil {
		return fc, e.externPkg[fc], pn, rnames
	}
	return nil, nil, nil, nil
}

// contractUsable: a repo function's contract is used at call sites when it has
// at least one active clause or is explicitly pure/modifies-annotated.
func (e *Engine) contractUsable(fc *FuncC) bool {
	if fc.Pure || fc.HasModifies {
		return true
	}
	for _, c := range fc.Requires {
		if e.clauseActive(c) {
			return true
		}
	}
	for _, c := range fc.Ensures {
		if e.clauseActive(c) {
			return true
		}
	}
	return false
}

func (e *Engine) specFor(pkg *types.Package, name string) *specInfo {
	if s, ok := e.specs[pkg.Path()+"."+name]; ok {
		return s
	}
	// specs of other packages are visible by bare name when unambiguous
	var found *specInfo
	for k, s := range e.specs {
		if strings.HasSuffix(k, "."+name) {
			if found != nil {
				return nil
			}
			found = s
		}
	}
	return found
}

// FuncsForProperty: functions with a clause tagged prop, plus contracted
// callees reachable from them; plus nopanic enrolments for prop.
func (e *Engine) FuncsForProperty(prop string) []*ssa.Function {
	set := map[*ssa.Function]bool{}
	var work []*ssa.Function
	add := func(fn *ssa.Function) {
		if !set[fn] {
			set[fn] = true
			work = append(work, fn)
		}
	}
	hasTag := func(fc *FuncC) bool {
		for _, t := range fc.NoSwallowTags {
			if t == prop {
				return true
			}
		}
		for _, t := range fc.CancellableTags {
			if t == prop {
				return true
			}
		}
		for _, t := range fc.LockBalancedTags {
			if t == prop {
				return true
			}
		}
		for _, cs := range [][]*Clause{fc.Requires, fc.Ensures} {
			for _, c := range cs {
				if c.HasTag(prop) {
					return true
				}
			}
		}
		for _, l := range fc.Loops {
			for _, c := range l.Invs {
				if c.HasTag(prop) {
					return true
				}
			}
			for _, t := range l.ExhaustiveTags {
				if t == prop {
					return true
				}
			}
		}
		for _, cs := range fc.Callsites {
			for _, c := range cs.Assert {
				if c.HasTag(prop) {
					return true
				}
			}
		}
		return false
	}
	for fn, fc := range e.funcC {
		if hasTag(fc) {
			add(fn)
		}
	}
	for fn, tags := range e.nopanic {
		for _, t := range tags {
			if t == prop {
				add(fn)
			}
		}
	}
	for len(work) > 0 {
		fn := work[0]
		work = work[1:]
		for _, b := range fn.Blocks {
			for _, in := range b.Instrs {
				ci, ok := in.(ssa.CallInstruction)
				if !ok {
					continue
				}
				if callee := ci.Common().StaticCallee(); callee != nil {
					if fc := e.funcC[callee]; fc != nil && e.contractUsable(fc) {
						if definitionalOnly(fc) && e.inferPure(callee) {
							// nothing to prove about the body beyond purity, which has
							// just been checked: `result == spec(args)` only names the
							// function's (deterministic) result
							if e.defOnlyUsed == nil {
								e.defOnlyUsed = map[string]bool{}
							}
							e.defOnlyUsed[funcDisplayName(callee)] = true
							continue
						}
						add(callee)
					}
				}
			}
		}
	}
	var out []*ssa.Function
	for fn := range set {
		out = append(out, fn)
	}
	sort.Slice(out, func(i, j int) bool { return out[i].String() < out[j].String() })
	return out
}

// definitionalOnly: the contract says nothing but "pure" and "the result is
// this uninterpreted function of the arguments".
func definitionalOnly(fc *FuncC) bool {
	if !fc.Pure || fc.AssumePure || len(fc.Requires) > 0 || len(fc.Loops) > 0 || len(fc.Callsites) > 0 || fc.NoSwallow || fc.Cancellable || fc.LockBalanced || len(fc.Ghosts) > 0 {
		return false
	}
	if len(fc.Ensures) == 0 {
		return false
	}
	for _, c := range fc.Ensures {
		if c.Kind != "defines" {
			return false
		}
	}
	return true
}

// ---------------------------------------------------------------------------
// top-level verification of one function

func (e *Engine) newVC(fn *ssa.Function) *VC {
	name := ""
	if fn != nil {
		name = funcDisplayName(fn)
	}
	return &VC{eng: e, fn: fn, name: name, sr: newSortReg(), declSeen: map[string]bool{}, comps: map[string]string{}, lits: map[string]string{},
		oblNames: map[string]int{}, notes: map[string]bool{}, specsUsed: map[string]bool{}, specState: map[string]string{}, funcsSeen: map[string]bool{}}
}

func funcDisplayName(fn *ssa.Function) string {
	if fn.Pkg != nil {
		return fn.Pkg.Pkg.Path() + "." + fn.RelString(fn.Pkg.Pkg)
	}
	return fn.String()
}

// viewsOf lists the named views of a function's contract that have a clause
// active for the current property and tier. A view is a group of clauses
// (invariants, assertions, postconditions tagged view:NAME) that is proved in a
// pass of its own: the pass assumes the untagged clauses of the function (they
// are proved in the main pass, without any view clause) and proves the view's
// clauses. This keeps independent quantified arguments out of each other's
// solver queries; it is the usual decomposition of a conjunctive invariant
// (base inductive on its own, view inductive relative to the base).
func (e *Engine) viewsOf(fn *ssa.Function) []string {
	fc := e.funcC[fn]
	if fc == nil {
		return nil
	}
	seen := map[string]bool{}
	var out []string
	add := func(c *Clause) {
		for _, t := range c.Tags {
			if strings.HasPrefix(t, "view:") {
				v := strings.TrimPrefix(t, "view:")
				old := e.view
				e.view = v
				act := e.clauseActive(c)
				e.view = old
				if act && !seen[v] {
					seen[v] = true
					out = append(out, v)
				}
			}
		}
	}
	for _, cs := range [][]*Clause{fc.Requires, fc.Ensures} {
		for _, c := range cs {
			add(c)
		}
	}
	for _, l := range fc.Loops {
		for _, c := range l.Invs {
			add(c)
		}
	}
	for _, cs := range fc.Callsites {
		for _, c := range cs.Assert {
			add(c)
		}
	}
	sort.Strings(out)
	return out
}

// VerifyFuncView runs the pass for one named view: same VC generation with the
// view's clauses switched on; only the obligations that stem from the view's
// clauses (and the reachability covers, as a vacuity guard for the view's
// assumptions) are kept.
func (e *Engine) VerifyFuncView(fn *ssa.Function, view string) *VC {
	e.view = view
	vc := e.VerifyFunc(fn)
	e.view = ""
	vc.name += "@" + view
	var keep []*Obl
	for _, o := range vc.obls {
		inView := false
		for _, t := range o.Tags {
			if t == "view:"+view {
				inView = true
			}
		}
		if inView || o.Cover {
			o.Name += "@" + view
			keep = append(keep, o)
		}
	}
	vc.obls = keep
	vc.note("view " + view + ": proved in a pass of its own that assumes the function's untagged clauses")
	return vc
}

func (e *Engine) VerifyFunc(fn *ssa.Function) (vc *VC) {
	vc = e.newVC(fn)
	defer func() {
		if r := recover(); r != nil {
			switch x := r.(type) {
			case unsupported:
				vc.unsupp = string(x)
			case cerr:
				vc.unsupp = "contract error: " + string(x)
			case parseErr:
				vc.unsupp = "contract parse error: " + string(x)
			default:
				panic(r)
			}
		}
	}()
	fc := e.funcC[fn]
	f := &frame{vc: vc, fn: fn, id: "", namePfx: funcDisplayName(fn), vals: map[ssa.Value]TV{}, lvs: map[ssa.Value]*LV{}, contract: fc, top: true, callOrd: map[string]int{}}
	vc.declare("alloc!top", "Int")
	vc.assert("(> |alloc!top| 0)")
	st := &bstate{alive: "true", heap: map[string]string{}, alloc: q("alloc!top"), ghost: map[string]TV{}}
	var args []TV
	for _, p := range fn.Params {
		tv := f.havocValue(st, "p."+p.Name(), p.Type())
		vc.inputs = append(vc.inputs, tv.T)
		if _, ok := p.Type().Underlying().(*types.Pointer); ok {
			if fc != nil && fc.Nullable[p.Name()] {
				vc.assert("(>= " + tv.T + " 0)")
			} else {
				vc.assert("(> " + tv.T + " 0)")
				vc.note("assumed: pointer parameters and receivers are non-nil")
			}
		}
		args = append(args, tv)
	}
	for i, p := range fn.Params {
		if _, ok := p.Type().Underlying().(*types.Pointer); ok {
			for _, fact := range f.ptrInvs(args[i], st, false) {
				vc.assert(fact)
			}
		}
	}
	// preconditions
	if fc != nil {
		env := &Env{f: f, vars: map[string]TV{}, st: st, pkg: fn.Pkg.Pkg}
		for i, p := range fn.Params {
			env.vars[p.Name()] = args[i]
		}
		// captured variables of a function literal: cells owned by the enclosing function
		for _, fv := range fn.FreeVars {
			if pt, ok := fv.Type().Underlying().(*types.Pointer); ok {
				tv := f.havocValue(st, "fv."+fv.Name(), fv.Type())
				vc.assert("(> " + tv.T + " 0)")
				if f.fvBind == nil {
					f.fvBind = map[*ssa.FreeVar]TV{}
				}
				f.fvBind[fv] = tv
				env.vars[fv.Name()] = f.load(st, f.lvOfRef(tv.T, pt.Elem()))
			}
		}
		var pres []string
		for _, r := range fc.Requires {
			if e.clauseActive(r) {
				pres = append(pres, f.transBool(r.Expr, env))
				if r.Kind == "relies" {
					vc.note("assumed history precondition (relies, not checked at call sites): " + r.Text)
				}
			}
		}
		st.alive = vc.define("pre", "Bool", and(pres...))
		for _, g := range fc.Ghosts {
			for _, p := range fn.Params {
				if p.Name() == g.Name {
					cfail("ghost %s of %s has the name of a parameter", g.Name, fc.Ref)
				}
			}
			ty := f.resolveType(g.Type, fn.Pkg.Pkg)
			s := f.sortOf(ty)
			var init string
			if g.InitE != nil {
				init = f.coerceTV(f.trans(g.InitE, env), s)
			} else {
				init = vc.fresh("ghost."+g.Name, s)
			}
			st.ghost[g.Name] = TV{T: init, S: s, Ty: ty}
		}
	}
	if fc != nil && fc.Kind == "func" && fc.HasModifies && fn.Blocks != nil {
		// frame: the declared modifies clause is what callers rely on
		okF, why := e.checkDeclaredFrame(fn, fc)
		goal := "true"
		if !okF {
			goal = "false"
		}
		name := funcDisplayName(fn) + "/frame/modifies " + strings.Join(fc.Modifies, ", ")
		vc.obls = append(vc.obls, &Obl{Name: name, Kind: "frame", Guard: "true", Goal: goal, Func: funcDisplayName(fn), Out: why,
			Clause: &Clause{Kind: "modifies", Text: strings.Join(fc.Modifies, ", "), File: fc.File, Line: fc.Line}})
		vc.note("frame of " + fn.String() + " checked syntactically against its modifies clause (by heap component)")
	}
	if fc != nil && fc.Kind == "func" && fc.Pure && fn.Blocks != nil {
		if fc.AssumePure {
			vc.note("assumed pure (not checked): " + fn.String())
		} else if !e.inferPure(fn) {
			vc.unsupp = "contract says pure but the body (or a callee) may write state that outlives the call; use assume-pure to state it as an assumption"
			return vc
		}
	}
	f.initVisited(st)
	if fc != nil && fc.Cancellable && e.clauseActive(&Clause{Tags: fc.CancellableTags}) {
		f.cancelFields = fc.CancelFields
		f.cancellable = true
		vc.note("cancellable: blocking channel operations checked structurally (every blocking send/receive is a case of a select that also waits for ctx.Done()); blocking inside callees and goroutines started here is not covered")
	}
	if e.noSwallowActive(fc) {
		st.ghost[noSwallowGhost] = TV{T: "false", S: "Bool", Ty: types.Typ[types.Bool]}
	}
	if e.lockBalancedActive(fc) {
		f.lockBal = true
		st.ghost[lockDepthGhost] = TV{T: "0", S: "Int", Ty: types.Typ[types.Int]}
		vc.note("lockbalanced: calls of sync Lock/RLock and Unlock/RUnlock (deferred ones included) are counted on every path; every normal exit must leave the count where the entry found it; which mutex is locked is not distinguished, callees are not followed")
	}
	vc.obls = append(vc.obls, &Obl{Name: f.namePfx + "/cover/entry", Kind: "cover", Guard: st.alive, Goal: "true", Cover: true, Func: f.namePfx})
	f.run(st, args)
	if fc != nil {
		for _, cs := range fc.Callsites {
			if !f.csUsed[cs] && !cs.Optional {
				seen := map[string]bool{}
				var names []string
				for _, b := range fn.Blocks {
					for _, in := range b.Instrs {
						if ci, ok := in.(ssa.CallInstruction); ok {
							if n := calleeName(ci.Common()); !seen[n] {
								seen[n] = true
								names = append(names, n)
							}
						}
					}
				}
				sort.Strings(names)
				cfail("callsite %s#%d of %s matches no call in the function (calls: %s)", cs.Callee, cs.Ord, fc.Ref, strings.Join(names, "; "))
			}
		}
		for ord, lc := range fc.Loops {
			found := false
			for h, li := range f.loops {
				if li.ord == ord {
					found = true
					if lc.Exhaustive && e.clauseActive(&Clause{Tags: lc.ExhaustiveTags}) {
						// every edge that leaves the loop starts at its header
						early := ""
						for b := range li.body {
							if b == h {
								continue
							}
							for _, s := range b.Succs {
								if !li.body[s] {
									early = fmt.Sprintf("block %d -> %d", b.Index, s.Index)
								}
							}
						}
						goal := "true"
						if early != "" {
							goal = "false"
						}
						vc.obls = append(vc.obls, &Obl{Name: fmt.Sprintf("%s/exhaustive/loop%d", f.namePfx, ord), Kind: "exhaustive", Guard: "true", Goal: goal, Func: f.namePfx})
						if early != "" {
							vc.note(fmt.Sprintf("loop %d is declared exhaustive but is left early (%s)", ord, early))
						}
					}
				}
			}
			if !found {
				cfail("loop %d of %s does not exist", ord, fc.Ref)
			}
		}
	}
	// postconditions
	for i, r := range f.rets {
		rst := r.st
		vc.obls = append(vc.obls, &Obl{Name: vc.uniqueName(f.namePfx + "/cover/return"), Kind: "cover", Guard: rst.alive, Goal: "true", Cover: true, Func: f.namePfx, NAsserts: len(vc.asserts)})
		_ = i
		e.typeInvObligations(f, fn, args, r)
		if fc == nil {
			continue
		}
		env := f.baseEnv(rst)
		f.anchorAt(env, r.instr, false)
		// in postconditions a parameter name always denotes the entry value
		for n, tv := range f.params {
			env.vars[n] = tv
		}
		// ... but a captured variable denotes its current content (old(v) the
		// content at entry): the variable outlives the call
		for _, fv := range fn.FreeVars {
			if _, ok := fv.Type().Underlying().(*types.Pointer); ok {
				if _, ok := f.vals[fv]; ok {
					env.vars[fv.Name()] = f.load(rst, f.lvalOf(fv))
				}
			}
		}
		sig := fn.Signature
		for k, rv := range r.results {
			env.vars[fmt.Sprintf("result%d", k)] = rv
			if n := sig.Results().At(k).Name(); n != "" && n != "_" {
				env.vars[n] = rv
			}
		}
		if len(r.results) == 1 {
			env.vars["result"] = r.results[0]
		}
		for _, en := range fc.Ensures {
			if !e.clauseActive(en) {
				continue
			}
			if en.Kind == "defines" {
				// definitional link between the function's results and an
				// uninterpreted spec function: sound when the function is pure and
				// deterministic in its arguments (checked), never proved here
				if !e.inferPure(fn) {
					cfail("defines clause on %s: the function is not (inferred) pure", fc.Ref)
				}
				vc.note("definitional clause (assumed at call sites): " + fc.Ref + ": " + en.Text)
				continue
			}
			if en.Kind == "panics" {
				// normal return: the panic condition did not hold at entry
				oenv := f.baseEnv(f.entry)
				st2 := rst.clone()
				f.obligeClause(st2, "returns-only-if-not", en.Text, not(f.transBool(en.Expr, oenv)), en, r.instr.Pos())
				continue
			}
			g := f.transBool(en.Expr, env)
			st2 := rst.clone()
			f.obligeClause(st2, "post", en.Text, g, en, r.instr.Pos())
			if en.HasTag("cut") {
				// proved (own obligation above), then available to the ensures
				// clauses that follow it at this return: a lemma step
				f.assume(rst, g)
			}
		}
		if e.noSwallowActive(fc) {
			f.noSwallowAt(rst, r)
		}
		if f.lockBal {
			if g, ok := rst.ghost[lockDepthGhost]; ok {
				st2 := rst.clone()
				f.oblige(st2, "lockbalanced", "every lock taken is released on this exit", eq(g.T, "0"), r.instr.Pos())
			}
		}
	}
	e.finishVC(vc, f)
	return vc
}

// lockbalanced: ghost counter of sync locks taken minus released.
const lockDepthGhost = "lockDepth"

const lockBalInvText = "lockbalanced: every iteration releases the locks it takes"

func (e *Engine) lockBalancedActive(fc *FuncC) bool {
	return fc != nil && fc.LockBalanced && e.clauseActive(&Clause{Tags: fc.LockBalancedTags})
}

// lockDelta: +1 for a call that takes a sync lock, -1 for one that releases it.
func lockDelta(name string) int {
	if !strings.Contains(name, "sync.") {
		return 0
	}
	switch {
	case strings.HasSuffix(name, ").Lock"), strings.HasSuffix(name, ").RLock"):
		return 1
	case strings.HasSuffix(name, ").Unlock"), strings.HasSuffix(name, ").RUnlock"):
		return -1
	}
	return 0
}

func (f *frame) lockTrack(name string, st *bstate) {
	if !f.lockBal || !f.top {
		return
	}
	d := lockDelta(name)
	g, ok := st.ghost[lockDepthGhost]
	if d == 0 || !ok {
		return
	}
	g.T = f.vc.define("ghost."+lockDepthGhost, "Int", fmt.Sprintf("(+ %s %s)", g.T, intLit(int64(d))))
	st.ghost[lockDepthGhost] = g
}

// noswallow: the ghost noswallowErr is set when a call of the function returns
// a non-nil error; it must be false at every loop header (no iteration goes on
// after an error) and imply a non-nil error result at every return.
const noSwallowGhost = "noswallowErr"

func (f *frame) noSwallowAt(st *bstate, r retInfo) {
	// the returned error is the last result of type error
	var ret *TV
	for i := range r.results {
		if r.results[i].S == "Iface" && r.results[i].Ty != nil && types.Identical(r.results[i].Ty, errorType) {
			ret = &r.results[i]
		}
	}
	g, ok := st.ghost[noSwallowGhost]
	if ret == nil || !ok {
		return
	}
	st2 := st.clone()
	goal := implies(g.T, not(f.ifaceEq(ret.T, zeroOfSort("Iface"))))
	f.oblige(st2, "noswallow", "an error returned by a call is reported", goal, r.instr.Pos())
}

// finishVC adds global facts: interface implementation tables, error globals.
func (e *Engine) finishVC(vc *VC, f *frame) {
	e.lemmaAxioms(vc, f)
	for fn, qy := range e.implQueries {
		if !vc.declSeen[fn] {
			continue
		}
		for i, t := range e.tagTypes {
			if types.Implements(t, qy.it) {
				vc.assert(fmt.Sprintf("(%s %d)", fn, i+1))
			} else {
				vc.assert(fmt.Sprintf("(not (%s %d))", fn, i+1))
			}
		}
	}
	// immutable slice globals initialised from a literal keep its length
	for c, s := range vc.comps {
		if strings.HasPrefix(c, "G:") && s == "Slice" && !e.mutGlobals[c] {
			if n, ok := e.globalSliceLen[c]; ok && vc.declSeen[q(c+"@e0")] {
				vc.assert(fmt.Sprintf("(= (s_len %s) %d)", q(c+"@e0"), n))
				vc.note("assumed: package-level variables never assigned outside init keep their initial value")
			}
		}
	}
	// immutable error-typed globals: non-nil and pairwise distinct
	var errG []string
	for c, s := range vc.comps {
		if strings.HasPrefix(c, "G:") && s == "Iface" && !e.mutGlobals[c] {
			errG = append(errG, c)
		}
	}
	sort.Strings(errG)
	for i, c := range errG {
		n := q(c + "@e0")
		if !vc.declSeen[n] {
			continue
		}
		vc.assert(fmt.Sprintf("(and (> (i_tag %s) 0) (= (i_box %s) (- %d)))", n, n, 900000+i))
		if t := e.globalDynType[c]; t != nil {
			vc.assert(fmt.Sprintf("(= (i_tag %s) %d)", n, e.tagOf(t)))
		}
		vc.note("assumed: package-level error variables are non-nil, pairwise distinct and never reassigned")
	}
}

// typeInvObligations: functions of the package that declares a (proved) type
// invariant must establish it for every value of that type they return and
// for every object of that type they received through a pointer.
func (e *Engine) typeInvObligations(f *frame, fn *ssa.Function, args []TV, r retInfo) {
	if fn.Pkg == nil {
		return
	}
	for _, ti := range e.typeInvs {
		if ti.c.Assumed || ti.pkg != fn.Pkg.Pkg {
			continue
		}
		check := func(what string, self TV, st *bstate) {
			env := &Env{f: f, vars: map[string]TV{"self": self}, st: st, pkg: ti.pkg}
			g := f.transBool(ti.c.Expr, env)
			st2 := st.clone()
			c := &Clause{Kind: "typeinv", Text: ti.c.Text, File: ti.c.File, Line: ti.c.Line}
			f.obligeClause(st2, "typeinv", what+":"+ti.c.Type+":"+ti.c.Text, g, c, r.instr.Pos())
		}
		for k, rv := range r.results {
			if rv.Ty != nil && !ti.ptr && types.Identical(rv.Ty, ti.ty) {
				check(fmt.Sprintf("result%d", k), rv, r.st)
			}
		}
		for i, p := range fn.Params {
			pt, ok := p.Type().Underlying().(*types.Pointer)
			if !ok || !types.Identical(pt.Elem(), ti.ty) {
				continue
			}
			if ti.ptr {
				check("*"+p.Name(), args[i], r.st)
			} else {
				check("*"+p.Name(), TV{T: f.loadStruct(r.st, pt.Elem(), args[i].T), S: f.sortOf(pt.Elem()), Ty: pt.Elem()}, r.st)
			}
		}
	}
}

// globalLeafIndex: addr is &G.f1.f2... for a struct global G; returns the index
// of that leaf in the flattened field order used by objCells.
func leafIndex(addr ssa.Value) (ssa.Value, int, bool) {
	var path []int
	for {
		fa, ok := addr.(*ssa.FieldAddr)
		if !ok {
			break
		}
		path = append([]int{fa.Field}, path...)
		addr = fa.X
	}
	if len(path) == 0 {
		return nil, 0, false
	}
	pt, ok := addr.Type().Underlying().(*types.Pointer)
	if !ok {
		return nil, 0, false
	}
	g := addr
	t := pt.Elem()
	idx := 0
	var count func(t types.Type) int
	count = func(t types.Type) int {
		st, ok := t.Underlying().(*types.Struct)
		if !ok {
			return 1
		}
		n := 0
		for i := 0; i < st.NumFields(); i++ {
			n += count(st.Field(i).Type())
		}
		return n
	}
	for _, fi := range path {
		st, ok := t.Underlying().(*types.Struct)
		if !ok {
			return nil, 0, false
		}
		for i := 0; i < fi; i++ {
			idx += count(st.Field(i).Type())
		}
		t = st.Field(fi).Type()
	}
	if _, isStruct := t.Underlying().(*types.Struct); isStruct {
		return nil, 0, false
	}
	return g, idx, true
}

// funcFieldOf: v is the value of a function-typed field T.f (loaded through a
// pointer or extracted from a struct value); returns T's name and f.
// funcTypeOf: the name of the named function type of a called value.
func funcTypeOf(v ssa.Value) string {
	if n, ok := v.Type().(*types.Named); ok {
		if _, ok := n.Underlying().(*types.Signature); ok {
			return n.Obj().Name()
		}
	}
	return ""
}

func funcFieldOf(v ssa.Value) (string, string) {
	named := func(t types.Type) string {
		if p, ok := t.Underlying().(*types.Pointer); ok {
			t = p.Elem()
		}
		if n, ok := t.(*types.Named); ok {
			return n.Obj().Name()
		}
		return ""
	}
	switch x := v.(type) {
	case *ssa.UnOp:
		if fa, ok := x.X.(*ssa.FieldAddr); ok {
			st := fa.X.Type().Underlying().(*types.Pointer).Elem()
			if s, ok := st.Underlying().(*types.Struct); ok {
				return named(st), s.Field(fa.Field).Name()
			}
		}
	case *ssa.Field:
		if s, ok := x.X.Type().Underlying().(*types.Struct); ok {
			return named(x.X.Type()), s.Field(x.Field).Name()
		}
	}
	return "", ""
}
