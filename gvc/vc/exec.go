package vc

import (
	"bytes"
	"fmt"
	"go/ast"
	"go/constant"
	"go/printer"
	"go/token"
	"go/types"
	"sort"
	"strings"

	"golang.org/x/tools/go/ssa"
)

// LV is a static lvalue descriptor for interior pointers.
type LV struct {
	gname  string // immutable struct global: fields are separate never-havocked components
	kind   int    // lvCell lvStruct lvMem lvArr
	comp   string
	csort  string // sort of the cell value
	ref    string // heap ref / mem base
	idx    string // mem index (lvMem)
	rootTy types.Type
	path   []pathElem
	ty     types.Type // type of location after path
}

const (
	lvCell   = iota // comp[ref], comp: Array Int csort
	lvStruct        // struct object at ref (fields in H: components)
	lvMem           // comp[ref][idx], comp: Array Int (Array Int csort)
	lvArr           // array object: row comp[ref]
	lvGlobal        // comp is a plain constant of sort csort
)

type pathElem struct {
	field int        // struct field index, or -1
	idx   string     // array index term
	ty    types.Type // type of the container at this step
}

type loopInfo struct {
	header *ssa.BasicBlock
	ord    int
	body   map[*ssa.BasicBlock]bool
}

type retInfo struct {
	st      *bstate
	results []TV
	instr   *ssa.Return
}

type localAlloc struct {
	tracked bool // escape sites known: private until one of them executes
	ref     TV
	ty      types.Type // pointee type
	escaped bool
	instr   *ssa.Alloc
}

type deferRec struct {
	instr *ssa.Defer
	armed string
	args  []TV
}

type frame struct {
	vc        *VC
	fn        *ssa.Function
	id        string
	namePfx   string // obligation name prefix
	vals      map[ssa.Value]TV
	lvs       map[ssa.Value]*LV
	depth     int
	cancellable  bool
	lockBal      bool
	cancelFields []string
	contract  *FuncC
	top       bool
	loops     map[*ssa.BasicBlock]*loopInfo
	out       map[*ssa.BasicBlock]*bstate
	edge      map[[2]int]string // (block index, succ slot) -> condition
	rets      []retInfo
	locals    []*localAlloc
	entry     *bstate
	params    map[string]TV
	defers    []*deferRec
	srcText   map[token.Pos]string
	callOrd   map[string]int
	errCalls  []errCall // for noswallow
	preserved []snap
	curIn     ssa.Instruction // call being executed
	// map range loops of the top-level function: ghost visited sets
	visitedName    map[*ssa.Range]string
	visitedKeySort map[string]string
	headVars       map[*ssa.BasicBlock]map[string]TV
	variant0       map[*ssa.BasicBlock]string
	caller         *frame
	boundDepth     int
	curSelf        *TV
	loopAlloc      map[*ssa.BasicBlock]string
	ordOf          map[ssa.Instruction]int
	escSites       map[ssa.Instruction][]string
	fvBind         map[*ssa.FreeVar]TV
	csUsed         map[*CallsiteC]bool
	noInvAssume    bool // >0 while translating under a binder (quantifier, spec definition)
}

type errCall struct {
	name string
	err  TV
}

func (f *frame) eng() *Engine { return f.vc.eng }
func (f *frame) sr() *sortReg { return f.vc.sr }

func (f *frame) sortOf(t types.Type) string { return f.vc.sr.sortOf(t) }

// ---------------------------------------------------------------------------
// loops

func findLoops(fn *ssa.Function) (map[*ssa.BasicBlock]*loopInfo, map[[2]*ssa.BasicBlock]bool) {
	loops := map[*ssa.BasicBlock]*loopInfo{}
	back := map[[2]*ssa.BasicBlock]bool{}
	for _, b := range fn.Blocks {
		for _, s := range b.Succs {
			if s.Dominates(b) {
				back[[2]*ssa.BasicBlock{b, s}] = true
				li := loops[s]
				if li == nil {
					li = &loopInfo{header: s, body: map[*ssa.BasicBlock]bool{s: true}}
					loops[s] = li
				}
				// collect body: reverse reachability from b up to s
				var stack []*ssa.BasicBlock
				if !li.body[b] {
					li.body[b] = true
					stack = append(stack, b)
				}
				for len(stack) > 0 {
					x := stack[len(stack)-1]
					stack = stack[:len(stack)-1]
					for _, p := range x.Preds {
						if !li.body[p] {
							li.body[p] = true
							stack = append(stack, p)
						}
					}
				}
			}
		}
	}
	var hs []*ssa.BasicBlock
	for h := range loops {
		hs = append(hs, h)
	}
	sort.Slice(hs, func(i, j int) bool { return hs[i].Index < hs[j].Index })
	for i, h := range hs {
		loops[h].ord = i + 1
	}
	return loops, back
}

// topo order ignoring back edges; ok=false if the remaining graph has a cycle.
func topoOrder(fn *ssa.Function, back map[[2]*ssa.BasicBlock]bool) ([]*ssa.BasicBlock, bool) {
	indeg := map[*ssa.BasicBlock]int{}
	reach := map[*ssa.BasicBlock]bool{}
	var dfs func(b *ssa.BasicBlock)
	dfs = func(b *ssa.BasicBlock) {
		if reach[b] {
			return
		}
		reach[b] = true
		for _, s := range b.Succs {
			dfs(s)
		}
	}
	dfs(fn.Blocks[0])
	for _, b := range fn.Blocks {
		if !reach[b] {
			continue
		}
		for _, s := range b.Succs {
			if !back[[2]*ssa.BasicBlock{b, s}] {
				indeg[s]++
			}
		}
	}
	var order []*ssa.BasicBlock
	var ready []*ssa.BasicBlock
	ready = append(ready, fn.Blocks[0])
	for len(ready) > 0 {
		// smallest index first for determinism
		sort.Slice(ready, func(i, j int) bool { return ready[i].Index < ready[j].Index })
		b := ready[0]
		ready = ready[1:]
		order = append(order, b)
		for _, s := range b.Succs {
			if back[[2]*ssa.BasicBlock{b, s}] {
				continue
			}
			indeg[s]--
			if indeg[s] == 0 {
				ready = append(ready, s)
			}
		}
	}
	n := 0
	for range reach {
		n++
	}
	return order, len(order) == n
}

// ---------------------------------------------------------------------------
// source text for obligation names

func (f *frame) initSrcText() {
	f.srcText = map[token.Pos]string{}
	syn := f.fn.Syntax()
	if syn == nil {
		return
	}
	fset := f.eng().Prog.Fset
	ast.Inspect(syn, func(n ast.Node) bool {
		switch x := n.(type) {
		case *ast.IndexExpr:
			f.srcText[x.Lbrack] = nodeText(fset, x)
		case *ast.SliceExpr:
			f.srcText[x.Lbrack] = nodeText(fset, x)
		case *ast.TypeAssertExpr:
			f.srcText[x.Lparen] = nodeText(fset, x)
		case *ast.CallExpr:
			f.srcText[x.Lparen] = nodeText(fset, x)
		case *ast.BinaryExpr:
			f.srcText[x.OpPos] = nodeText(fset, x)
		case *ast.StarExpr:
			f.srcText[x.Star] = nodeText(fset, x)
		case *ast.SelectorExpr:
			f.srcText[x.Sel.Pos()] = nodeText(fset, x)
		case *ast.CompositeLit:
			f.srcText[x.Lbrace] = nodeText(fset, x)
		}
		return true
	})
}

func (f *frame) text(pos token.Pos, fallback string) string {
	if t, ok := f.srcText[pos]; ok {
		if len(t) > 90 {
			t = t[:90] + "…"
		}
		return t
	}
	return fallback
}

// ---------------------------------------------------------------------------
// obligations

func (f *frame) oblige(st *bstate, kind, what, goal string, pos token.Pos) {
	if goal == "true" {
		return
	}
	name := f.namePfx + "/" + kind + "/" + what
	o := &Obl{Name: name, Kind: kind, Guard: st.alive, Goal: goal, Func: f.namePfx}
	if pos.IsValid() {
		o.Pos = f.eng().Prog.Fset.Position(pos)
	}
	f.vc.addObl(o)
	// continue only if the check passed
	st.alive = f.vc.define("a", "Bool", and(st.alive, goal))
}

func (f *frame) assume(st *bstate, fact string) {
	if fact == "true" {
		return
	}
	f.vc.assert(implies(st.alive, fact))
}

// ---------------------------------------------------------------------------
// values

func (f *frame) constVal(c *ssa.Const) TV {
	t := c.Type()
	if _, ok := t.Underlying().(*types.Tuple); ok {
		unsup("tuple const")
	}
	s := f.sortOf(t)
	tv := TV{S: s, Ty: t}
	if c.Value == nil {
		tv.T = f.sr().zero(t)
		return tv
	}
	switch s {
	case "Bool":
		if constant.BoolVal(c.Value) {
			tv.T = "true"
		} else {
			tv.T = "false"
		}
	case "Str":
		tv.T = f.vc.strLit(constant.StringVal(c.Value))
	case "Int":
		v := constant.ToInt(c.Value)
		if i, ok := constant.Int64Val(v); ok {
			tv.T = intLit(i)
		} else {
			// large constant (uint64 range)
			tv.T = v.ExactString()
			if strings.HasPrefix(tv.T, "-") {
				tv.T = "(- " + tv.T[1:] + ")"
			}
		}
	case "Real":
		tv.T = f.vc.fresh("float", "Real")
	default:
		if isBV(s) {
			u, _ := constant.Uint64Val(constant.ToInt(c.Value))
			tv.T = bvLit(u, bvWidth(s))
		} else {
			unsup("const of sort %s", s)
		}
	}
	return tv
}

func (f *frame) val(v ssa.Value) TV {
	switch x := v.(type) {
	case *ssa.Const:
		return f.constVal(x)
	case *ssa.Function:
		return f.funcVal(x)
	case *ssa.Global:
		// address of a global used as a value: struct globals are objects
		if _, ok := x.Type().(*types.Pointer).Elem().Underlying().(*types.Struct); ok {
			return f.globalRef(x)
		}
		unsup("address of global %s used as value", x.Name())
	case *ssa.Builtin:
		unsup("builtin %s as value", x.Name())
	}
	if tv, ok := f.vals[v]; ok {
		return tv
	}
	if _, ok := f.lvs[v]; ok {
		unsup("interior pointer %s (%s) used as a value", v.Name(), v.Type())
	}
	unsup("value %s (%T) not defined", v.Name(), v)
	return TV{}
}

func (f *frame) funcVal(fn *ssa.Function) TV {
	name := "fn:" + fn.String()
	c := f.vc.declare(name, "Int")
	id := f.eng().funcID(fn.String())
	if !f.vc.funcsSeen[name] {
		f.vc.funcsSeen[name] = true
		f.vc.assert(fmt.Sprintf("(= %s %d)", c, id))
	}
	return TV{T: c, S: "Int", Ty: fn.Type()}
}

func (f *frame) globalRef(g *ssa.Global) TV {
	name := "gref:" + g.Pkg.Pkg.Path() + "." + g.Name()
	c := f.vc.declare(name, "Int")
	if !f.vc.funcsSeen[name] {
		f.vc.funcsSeen[name] = true
		f.vc.assert(fmt.Sprintf("(= %s (- %d))", c, f.eng().funcID(name)))
	}
	return TV{T: c, S: "Int", Ty: g.Type()}
}

func (f *frame) setVal(v ssa.Value, tv TV) {
	if tv.Ty == nil {
		tv.Ty = v.Type()
	}
	f.vals[v] = tv
}

// newValue declares a fresh constant for an SSA value's type with type facts.
func (f *frame) havocValue(st *bstate, hint string, t types.Type) TV {
	if tup, ok := t.(*types.Tuple); ok {
		var tv TV
		for i := 0; i < tup.Len(); i++ {
			tv.Tuple = append(tv.Tuple, f.havocValue(st, fmt.Sprintf("%s.%d", hint, i), tup.At(i).Type()))
		}
		return tv
	}
	s := f.sortOf(t)
	c := f.vc.fresh(hint, s)
	tv := TV{T: c, S: s, Ty: t}
	f.typeFacts(st, tv)
	return tv
}

// typeFacts assumes the representation invariants of a value of type t.
func (f *frame) typeFacts(st *bstate, tv TV) {
	if tv.Ty == nil {
		return
	}
	alloc := "alloc!top"
	if st != nil {
		alloc = st.alloc
	}
	for _, fact := range f.wfFacts(tv.T, tv.Ty, alloc, 0) {
		f.vc.assert(fact)
	}
}

func (f *frame) wfFacts(t string, ty types.Type, alloc string, depth int) []string {
	var out []string
	switch u := ty.Underlying().(type) {
	case *types.Basic:
		switch {
		case u.Kind() == types.String:
			out = append(out, fmt.Sprintf("(>= (slen %s) 0)", t), fmt.Sprintf("(= (= (slen %s) 0) (= %s str_empty))", t, t))
		case u.Kind() == types.Uint || u.Kind() == types.Uintptr:
			out = append(out, fmt.Sprintf("(>= %s 0)", t))
		}
	case *types.Slice:
		out = append(out, fmt.Sprintf("(and (>= (s_base %s) 0) (>= (s_off %s) 0) (>= (s_len %s) 0) (<= (s_len %s) (s_cap %s)) (=> (= (s_base %s) 0) (= (s_cap %s) 0)) (< (s_base %s) %s))", t, t, t, t, t, t, t, t, alloc))
	case *types.Pointer, *types.Map, *types.Chan:
		out = append(out, fmt.Sprintf("(< %s %s)", t, alloc))
	case *types.Interface:
		out = append(out, fmt.Sprintf("(>= (i_tag %s) 0)", t))
	case *types.Struct:
		if depth < 3 {
			si := f.sr().structSort(ty)
			for i := 0; i < u.NumFields(); i++ {
				out = append(out, f.wfFacts("("+si.fields[i]+" "+t+")", u.Field(i).Type(), alloc, depth+1)...)
			}
		}
		for _, ti := range f.eng().typeInvs {
			if !ti.ptr && types.Identical(ti.ty, ty) {
				// inside the declaring package a loaded value may be under
				// construction: the invariant is only assumed for values that
				// arrive from outside (parameters, call results)
				if f.noInvAssume && f.pkgTypes() == ti.pkg {
					continue
				}
				env := &Env{f: f, vars: map[string]TV{"self": {T: t, S: f.sortOf(ty), Ty: ty}}, st: nil, pkg: ti.pkg}
				out = append(out, f.transBool(ti.c.Expr, env))
				if ti.c.Assumed {
					f.vc.note("assumed type invariant: " + ti.c.Type + ": " + ti.c.Text)
				}
			}
		}
	}
	return out
}

// ptrInvsOf: invariants declared for the pointer type itself (*T), keyed by text.
func (f *frame) ptrInvsOf(ref TV, st *bstate, onlyPtr bool) map[string]string {
	out := map[string]string{}
	pt, ok := ref.Ty.Underlying().(*types.Pointer)
	if !ok {
		return out
	}
	for _, ti := range f.eng().typeInvs {
		if !ti.ptr || !types.Identical(ti.ty, pt.Elem()) {
			continue
		}
		env := &Env{f: f, vars: map[string]TV{"self": ref}, st: st, pkg: ti.pkg}
		out[ti.c.Text] = f.transBool(ti.c.Expr, env)
	}
	return out
}

// ptrInvFacts: (assumed or proved) invariants of objects reached through a pointer.
func (f *frame) ptrInvs(ref TV, st *bstate, wantAssumed bool) []string {
	var out []string
	pt, ok := ref.Ty.Underlying().(*types.Pointer)
	if !ok {
		return nil
	}
	for _, ti := range f.eng().typeInvs {
		if types.Identical(ti.ty, pt.Elem()) && (ti.ptr || true) {
			if ti.c.Assumed != wantAssumed && wantAssumed {
				continue
			}
			var self TV
			if ti.ptr {
				self = ref
			} else {
				self = TV{T: f.loadStruct(st, pt.Elem(), ref.T), S: f.sortOf(pt.Elem()), Ty: pt.Elem()}
			}
			env := &Env{f: f, vars: map[string]TV{"self": self}, st: st, pkg: ti.pkg}
			out = append(out, f.transBool(ti.c.Expr, env))
		}
	}
	return out
}

// ---------------------------------------------------------------------------
// lvalues

func (f *frame) lvalOf(v ssa.Value) *LV {
	if lv, ok := f.lvs[v]; ok {
		return lv
	}
	if g, ok := v.(*ssa.Global); ok {
		et := g.Type().(*types.Pointer).Elem()
		if _, ok := et.Underlying().(*types.Struct); ok {
			lv := &LV{kind: lvStruct, ref: f.globalRef(g).T, ty: et, rootTy: et}
			if key := compGlobal(g); !f.eng().mutableGlobal(key) {
				lv.gname = key
				f.immGlobalFacts(g, key, et)
			}
			return lv
		}
		s := f.sortOf(et)
		return &LV{kind: lvGlobal, comp: compGlobal(g), csort: s, ty: et, rootTy: et}
	}
	tv := f.val(v)
	pt, ok := v.Type().Underlying().(*types.Pointer)
	if !ok {
		unsup("lvalue of non-pointer %s", v.Type())
	}
	return f.lvOfRef(tv.T, pt.Elem())
}

func (f *frame) lvOfRef(ref string, et types.Type) *LV {
	switch u := et.Underlying().(type) {
	case *types.Struct:
		return &LV{kind: lvStruct, ref: ref, ty: et, rootTy: et}
	case *types.Array:
		es := f.sortOf(u.Elem())
		return &LV{kind: lvArr, comp: compMem(es), csort: es, ref: ref, ty: et, rootTy: et}
	}
	s := f.sortOf(et)
	return &LV{kind: lvCell, comp: compBox(s), csort: s, ref: ref, ty: et, rootTy: et}
}

// sub-object reference for a nested struct field
func (f *frame) subRef(si *structInfo, i int, ref string) string {
	name := "sub:" + strings.Trim(si.fields[i], "|")
	fn := f.vc.declareFun(name, []string{"Int"}, "Int")
	inv := f.vc.declareFun(name+"^-1", []string{"Int"}, "Int")
	tagf := f.vc.declareFun("subtag", []string{"Int"}, "Int")
	t := "(" + fn + " " + ref + ")"
	key := "subfact:" + t
	if !f.vc.funcsSeen[key] {
		f.vc.funcsSeen[key] = true
		f.vc.assert(fmt.Sprintf("(and (< %s 0) (= (%s %s) %s) (= (%s %s) %d))", t, inv, t, ref, tagf, t, f.eng().funcID(name)))
	}
	return t
}

func (f *frame) fieldAddr(x *LV, i int) (*LV, *TV) {
	if x.kind == lvStruct && x.gname != "" {
		st := x.ty.Underlying().(*types.Struct)
		ft := st.Field(i).Type()
		name := x.gname + "." + st.Field(i).Name()
		if _, ok := ft.Underlying().(*types.Struct); ok {
			return &LV{kind: lvStruct, gname: name, ref: x.ref, ty: ft, rootTy: ft}, nil
		}
		return &LV{kind: lvGlobal, comp: name, csort: f.sortOf(ft), ty: ft, rootTy: ft}, nil
	}
	switch x.kind {
	case lvStruct:
		st := x.ty.Underlying().(*types.Struct)
		si := f.sr().structSort(x.ty)
		ft := st.Field(i).Type()
		if _, ok := ft.Underlying().(*types.Struct); ok {
			r := f.subRef(si, i, x.ref)
			return nil, &TV{T: r, S: "Int", Ty: types.NewPointer(ft)}
		}
		return &LV{kind: lvCell, comp: compField(si, i), csort: si.fsorts[i], ref: x.ref, ty: ft, rootTy: ft}, nil
	case lvCell, lvMem, lvGlobal:
		st, ok := x.ty.Underlying().(*types.Struct)
		if !ok {
			unsup("field of non-struct location")
		}
		n := *x
		n.path = append(append([]pathElem{}, x.path...), pathElem{field: i, ty: x.ty})
		n.ty = st.Field(i).Type()
		return &n, nil
	}
	unsup("fieldAddr on lv kind %d", x.kind)
	return nil, nil
}

// read the root cell of an lvalue
func (f *frame) readCell(st *bstate, lv *LV) string {
	switch lv.kind {
	case lvCell:
		return sel(f.vc.comp(st, lv.comp, arr1(lv.csort)), lv.ref)
	case lvMem:
		return sel(sel(f.vc.comp(st, lv.comp, arr2(lv.csort)), lv.ref), lv.idx)
	case lvGlobal:
		return f.vc.globalComp(st, lv.comp, lv.csort, f.eng().mutableGlobal(lv.comp))
	}
	unsup("readCell kind %d", lv.kind)
	return ""
}

func (f *frame) writeCell(st *bstate, lv *LV, v string) {
	switch lv.kind {
	case lvCell:
		c := f.vc.comp(st, lv.comp, arr1(lv.csort))
		f.vc.setComp(st, lv.comp, arr1(lv.csort), sto(c, lv.ref, v))
	case lvMem:
		c := f.vc.comp(st, lv.comp, arr2(lv.csort))
		f.vc.setComp(st, lv.comp, arr2(lv.csort), sto(c, lv.ref, sto(sel(c, lv.ref), lv.idx, v)))
	case lvGlobal:
		f.vc.setComp(st, lv.comp, lv.csort, v)
	default:
		unsup("writeCell kind %d", lv.kind)
	}
}

func (f *frame) pathGet(v string, path []pathElem) string {
	for _, p := range path {
		if p.field >= 0 {
			si := f.sr().structSort(p.ty)
			v = "(" + si.fields[p.field] + " " + v + ")"
		} else {
			v = sel(v, p.idx)
		}
	}
	return v
}

func (f *frame) pathSet(v string, path []pathElem, nv string) string {
	if len(path) == 0 {
		return nv
	}
	p := path[0]
	if p.field >= 0 {
		si := f.sr().structSort(p.ty)
		var fs []string
		for i := range si.fields {
			cur := "(" + si.fields[i] + " " + v + ")"
			if i == p.field {
				cur = f.pathSet(cur, path[1:], nv)
			}
			fs = append(fs, cur)
		}
		return si.mk(fs)
	}
	return sto(v, p.idx, f.pathSet(sel(v, p.idx), path[1:], nv))
}

func (f *frame) load(st *bstate, lv *LV) TV {
	if lv.kind == lvStruct && lv.gname != "" {
		return TV{T: f.loadStructG(st, lv), S: f.sortOf(lv.ty), Ty: lv.ty}
	}
	switch lv.kind {
	case lvStruct:
		return TV{T: f.loadStruct(st, lv.ty, lv.ref), S: f.sortOf(lv.ty), Ty: lv.ty}
	case lvArr:
		// whole array value = row
		return TV{T: sel(f.vc.comp(st, lv.comp, arr2(lv.csort)), lv.ref), S: f.sortOf(lv.ty), Ty: lv.ty}
	}
	v := f.pathGet(f.readCell(st, lv), lv.path)
	return TV{T: v, S: f.sortOf(lv.ty), Ty: lv.ty}
}

func (f *frame) loadStruct(st *bstate, ty types.Type, ref string) string {
	u := ty.Underlying().(*types.Struct)
	si := f.sr().structSort(ty)
	var fs []string
	for i := 0; i < u.NumFields(); i++ {
		ft := u.Field(i).Type()
		if _, ok := ft.Underlying().(*types.Struct); ok {
			fs = append(fs, f.loadStruct(st, ft, f.subRef(si, i, ref)))
		} else {
			fs = append(fs, sel(f.vc.comp(st, compField(si, i), arr1(si.fsorts[i])), ref))
		}
	}
	return si.mk(fs)
}

func (f *frame) store(st *bstate, lv *LV, v TV) {
	switch lv.kind {
	case lvStruct:
		f.storeStruct(st, lv.ty, lv.ref, v.T)
		return
	case lvArr:
		c := f.vc.comp(st, lv.comp, arr2(lv.csort))
		f.vc.setComp(st, lv.comp, arr2(lv.csort), sto(c, lv.ref, v.T))
		return
	}
	if len(lv.path) == 0 {
		f.writeCell(st, lv, v.T)
		return
	}
	f.writeCell(st, lv, f.pathSet(f.readCell(st, lv), lv.path, v.T))
}

func (f *frame) storeStruct(st *bstate, ty types.Type, ref string, v string) {
	u := ty.Underlying().(*types.Struct)
	si := f.sr().structSort(ty)
	v = f.vc.define("sv", si.sort, v)
	for i := 0; i < u.NumFields(); i++ {
		ft := u.Field(i).Type()
		fv := "(" + si.fields[i] + " " + v + ")"
		if _, ok := ft.Underlying().(*types.Struct); ok {
			f.storeStruct(st, ft, f.subRef(si, i, ref), fv)
		} else {
			c := f.vc.comp(st, compField(si, i), arr1(si.fsorts[i]))
			f.vc.setComp(st, compField(si, i), arr1(si.fsorts[i]), sto(c, ref, fv))
		}
	}
}

// cells occupied by an object of type ty at ref (for preservation across havoc)
type cellRef struct {
	comp, sort, ref string
}

func (f *frame) objCells(ty types.Type, ref string) []cellRef {
	switch u := ty.Underlying().(type) {
	case *types.Struct:
		si := f.sr().structSort(ty)
		var out []cellRef
		for i := 0; i < u.NumFields(); i++ {
			ft := u.Field(i).Type()
			if _, ok := ft.Underlying().(*types.Struct); ok {
				out = append(out, f.objCells(ft, f.subRef(si, i, ref))...)
			} else {
				out = append(out, cellRef{compField(si, i), arr1(si.fsorts[i]), ref})
			}
		}
		return out
	case *types.Array:
		es := f.sortOf(u.Elem())
		return []cellRef{{compMem(es), arr2(es), ref}}
	}
	s := f.sortOf(ty)
	return []cellRef{{compBox(s), arr1(s), ref}}
}

// static classification of store targets for loop mod-sets
func (f *frame) storeComps(addr ssa.Value, out *modSet) {
	var subComps func(ty types.Type, root ssa.Value)
	subComps = func(ty types.Type, root ssa.Value) {
		switch u := ty.Underlying().(type) {
		case *types.Struct:
			si := f.sr().structSort(ty)
			for i := 0; i < u.NumFields(); i++ {
				ft := u.Field(i).Type()
				if _, ok := ft.Underlying().(*types.Struct); ok {
					subComps(ft, root)
				} else {
					out.addSub(compField(si, i), arr1(si.fsorts[i]), root)
				}
			}
		case *types.Array:
			out.addSub(compMem(f.sortOf(u.Elem())), arr2(f.sortOf(u.Elem())), root)
		default:
			out.addSub(compBox(f.sortOf(ty)), arr1(f.sortOf(ty)), root)
		}
	}
	var leafComps func(ty types.Type, ref ssa.Value)
	leafComps = func(ty types.Type, ref ssa.Value) {
		switch u := ty.Underlying().(type) {
		case *types.Struct:
			si := f.sr().structSort(ty)
			for i := 0; i < u.NumFields(); i++ {
				ft := u.Field(i).Type()
				if _, ok := ft.Underlying().(*types.Struct); ok {
					if ref == nil {
						leafComps(ft, nil)
					} else {
						subComps(ft, ref)
					}
				} else {
					out.addAt(compField(si, i), arr1(si.fsorts[i]), ref)
				}
			}
		case *types.Array:
			out.addAt(compMem(f.sortOf(u.Elem())), arr2(f.sortOf(u.Elem())), ref)
		default:
			out.addAt(compBox(f.sortOf(ty)), arr1(f.sortOf(ty)), ref)
		}
	}
	// class returns: comp ("" for objects), sort, object type, root ref value
	// (nil when the ref is not a plain SSA value, e.g. a sub-object)
	// nestedRoot: the object whose nested sub-struct the address points into
	var nestedRoot ssa.Value
	var class func(v ssa.Value) (string, string, types.Type, ssa.Value)
	class = func(v ssa.Value) (string, string, types.Type, ssa.Value) {
		switch a := v.(type) {
		case *ssa.FieldAddr:
			c, cs, ot, ref := class(a.X)
			if c != "" {
				return c, cs, nil, ref
			}
			if st, ok := ot.Underlying().(*types.Struct); ok {
				ft := st.Field(a.Field).Type()
				if _, ok := ft.Underlying().(*types.Struct); ok {
					if ref != nil {
						nestedRoot = ref
					}
					return "", "", ft, nil
				}
				si := f.sr().structSort(ot)
				return compField(si, a.Field), arr1(si.fsorts[a.Field]), nil, ref
			}
			return "?", "", nil, nil
		case *ssa.IndexAddr:
			if sl, ok := a.X.Type().Underlying().(*types.Slice); ok {
				es := f.sortOf(sl.Elem())
				return compMem(es), arr2(es), nil, sliceRootVal(a.X)
			}
			c, cs, ot, ref := class(a.X)
			if c != "" {
				return c, cs, nil, ref
			}
			if at, ok := ot.Underlying().(*types.Array); ok {
				es := f.sortOf(at.Elem())
				return compMem(es), arr2(es), nil, ref
			}
			return "?", "", nil, nil
		case *ssa.Global:
			et := a.Type().(*types.Pointer).Elem()
			if _, ok := et.Underlying().(*types.Struct); ok {
				return "", "", et, nil
			}
			return compGlobal(a), f.sortOf(et), nil, nil
		}
		if pt, ok := v.Type().Underlying().(*types.Pointer); ok {
			switch pt.Elem().Underlying().(type) {
			case *types.Struct, *types.Array:
				return "", "", pt.Elem(), v
			}
			es := f.sortOf(pt.Elem())
			return compBox(es), arr1(es), nil, v
		}
		return "?", "", nil, nil
	}
	c, cs, ot, ref := class(addr)
	switch {
	case c == "?":
		out.star = true
	case c != "" && ref == nil && nestedRoot != nil && strings.HasPrefix(c, "H:"):
		out.addSub(c, cs, nestedRoot)
	case c != "":
		out.addAt(c, cs, ref)
	case ref == nil && nestedRoot != nil:
		subComps(ot, nestedRoot)
	default:
		leafComps(ot, ref)
	}
}

// sliceRootVal follows Slice instructions back to the slice they derive from.
func sliceRootVal(v ssa.Value) ssa.Value {
	for {
		s, ok := v.(*ssa.Slice)
		if !ok {
			return v
		}
		if _, isSl := s.X.Type().Underlying().(*types.Slice); !isSl {
			return v
		}
		v = s.X
	}
}

func nodeText(fset *token.FileSet, n ast.Node) string {
	var b bytes.Buffer
	if err := printer.Fprint(&b, fset, n); err != nil {
		return ""
	}
	return normText(b.String())
}

func (f *frame) topFrame() *frame {
	t := f
	for t.caller != nil {
		t = t.caller
	}
	return t
}

// isPrivate: the local object cannot have been touched by other code yet.
func (la *localAlloc) isPrivate(st *bstate) bool {
	if !la.escaped {
		return true
	}
	return la.tracked && !st.leaked[la.ref.T]
}

// loadStructG: whole-struct load of an immutable struct global.
func (f *frame) loadStructG(st *bstate, lv *LV) string {
	u := lv.ty.Underlying().(*types.Struct)
	si := f.sr().structSort(lv.ty)
	var fs []string
	for i := 0; i < u.NumFields(); i++ {
		sub, _ := f.fieldAddr(lv, i)
		if sub.kind == lvStruct {
			fs = append(fs, f.loadStructG(st, sub))
		} else {
			fs = append(fs, f.readCell(st, sub))
		}
	}
	return si.mk(fs)
}

// immGlobalFacts: constants stored into the global by package initialisation.
func (f *frame) immGlobalFacts(g *ssa.Global, key string, et types.Type) {
	if f.vc.funcsSeen["immfacts:"+key] {
		return
	}
	f.vc.funcsSeen["immfacts:"+key] = true
	f.vc.note("assumed: package-level variables never assigned outside init keep their initial value")
	// flattened leaf names in objCells order
	var names []string
	var sorts []string
	var walk func(prefix string, t types.Type)
	walk = func(prefix string, t types.Type) {
		st, ok := t.Underlying().(*types.Struct)
		if !ok {
			names = append(names, prefix)
			sorts = append(sorts, f.sortOf(t))
			return
		}
		for i := 0; i < st.NumFields(); i++ {
			walk(prefix+"."+st.Field(i).Name(), st.Field(i).Type())
		}
	}
	walk(key, et)
	for _, ci := range f.eng().globalInit[key] {
		if ci.cell < len(names) {
			cv := f.constVal(ci.val)
			if cv.S != sorts[ci.cell] {
				continue
			}
			c := f.vc.declare(names[ci.cell]+"@e0", sorts[ci.cell])
			f.vc.comps[names[ci.cell]] = sorts[ci.cell]
			f.vc.assert(eq(c, cv.T))
		}
	}
}
