package vc

import (
	"fmt"
	"go/constant"
	"go/token"
	"go/types"
	"os"
	"sort"
	"strings"

	"golang.org/x/tools/go/ssa"
)

func (f *frame) instr(in ssa.Instruction, st *bstate) {
	vc := f.vc
	if top := f.topFrame(); top.escSites != nil {
		if refs, ok := top.escSites[in]; ok {
			if st.leaked == nil {
				st.leaked = map[string]bool{}
			}
			for _, r := range refs {
				st.leaked[r] = true
			}
		}
	}
	switch x := in.(type) {
	case *ssa.DebugRef:
		f.debugRef(x)
	case *ssa.Alloc:
		f.alloc(x, st)
	case *ssa.BinOp:
		f.setVal(x, f.binop(x, st))
	case *ssa.UnOp:
		f.unop(x, st)
	case *ssa.Store:
		lv := f.lvalOf(x.Addr)
		if lv.kind == lvCell || lv.kind == lvStruct || lv.kind == lvArr {
			f.nilCheck(st, x.Addr, lv, x.Pos())
		}
		f.store(st, lv, f.val(x.Val))
	case *ssa.FieldAddr:
		base := f.lvalOf(x.X)
		if base.kind == lvStruct {
			f.nilCheck(st, x.X, base, x.Pos())
		}
		lv, tv := f.fieldAddr(base, x.Field)
		if lv != nil {
			f.lvs[x] = lv
		} else {
			f.setVal(x, *tv)
		}
	case *ssa.Field:
		v := f.val(x.X)
		si := f.sr().structSort(x.X.Type())
		ft := x.X.Type().Underlying().(*types.Struct).Field(x.Field).Type()
		f.setVal(x, TV{T: "(" + si.fields[x.Field] + " " + v.T + ")", S: f.sortOf(ft), Ty: ft})
	case *ssa.IndexAddr:
		f.indexAddr(x, st)
	case *ssa.Index:
		f.index(x, st)
	case *ssa.Lookup:
		f.lookup(x, st)
	case *ssa.Slice:
		f.slice(x, st)
	case *ssa.Phi:
		unsup("phi after non-phi")
	case *ssa.If:
		c := f.val(x.Cond).T
		b := x.Block()
		f.edge[[2]int{b.Index, 0}] = and(st.alive, c)
		f.edge[[2]int{b.Index, 1}] = and(st.alive, not(c))
	case *ssa.Jump:
		f.edge[[2]int{x.Block().Index, 0}] = st.alive
	case *ssa.Return:
		var rs []TV
		for _, r := range x.Results {
			rs = append(rs, f.val(r))
		}
		f.rets = append(f.rets, retInfo{st: st.clone(), results: rs, instr: x})
	case *ssa.Panic:
		if pc := f.panicsClauses(); len(pc) > 0 {
			// exceptional postcondition: a panic may only happen when the
			// declared condition holds (evaluated on the entry state)
			env := f.baseEnv(f.entry)
			for _, c := range pc {
				st2 := st.clone()
				f.obligeClause(st2, "panics-only-if", c.Text, f.transBool(c.Expr, env), c, x.Pos())
			}
			st.alive = "false"
			return
		}
		if f.allowPanic(x) {
			// documented panic: path ends here
			st.alive = "false"
			return
		}
		f.oblige(st, "panic", f.panicText(x), "false", x.Pos())
	case *ssa.RunDefers:
		f.runDefers(st, in)
	case *ssa.Defer:
		f.deferInstr(x, st)
	case *ssa.Go:
		vc.note("abstracted: go statement in " + f.fn.String())
		f.escapeArgs(x.Common(), st)
	case *ssa.Send:
		if f.cancellable && f.caller == nil {
			f.oblige(st, "cancellable", "send outside a select that waits for cancellation", "false", x.Pos())
		}
		vc.note("abstracted: channel send in " + f.fn.String())
		f.havocAll(st, "send")
	case *ssa.Select:
		vc.note("abstracted: select in " + f.fn.String())
		if x.Blocking && f.cancellable && f.caller == nil {
			ok := false
			for _, s := range x.States {
				if s.Dir == types.RecvOnly && f.isCancelChan(s.Chan) {
					ok = true
				}
			}
			goal := "false"
			if ok {
				goal = "true"
			}
			f.oblige(st, "cancellable", "blocking select has a cancellation case", goal, x.Pos())
		}
		selPres := f.selectBefore(x, st)
		if x.Blocking {
			// the goroutine may wait here: whatever other goroutines do meanwhile
			f.havocAll(st, "select")
		}
		f.setVal(x, f.havocValue(st, f.id+x.Name(), x.Type()))
		// index result is within range
		tv := f.vals[x]
		n := len(x.States)
		lo := 0
		if !x.Blocking {
			lo = -1
		}
		f.assume(st, fmt.Sprintf("(and (>= %s %d) (< %s %d))", tv.Tuple[0].T, lo, tv.Tuple[0].T, n))
		f.selectAfter(x, tv.Tuple[0], selPres, st)
	case *ssa.MakeChan:
		r := f.freshRef(st, x.Name(), x.Type())
		// the capacity of a channel is fixed when it is made (chancap in contracts)
		f.assume(st, eq("(chan_cap "+r.T+")", f.toInt(f.val(x.Size))))
		f.setVal(x, r)
	case *ssa.MakeClosure:
		f.makeClosure(x, st)
	case *ssa.MakeInterface:
		f.makeInterface(x, st)
	case *ssa.MakeMap:
		r := f.freshRef(st, x.Name(), x.Type())
		mt := x.Type().Underlying().(*types.Map)
		ks, vs := f.sortOf(mt.Key()), f.sortOf(mt.Elem())
		ds, vsS := "(Array Int (Array "+ks+" Bool))", "(Array Int (Array "+ks+" "+vs+"))"
		d := vc.comp(st, compMdom(ks, vs), ds)
		vc.setComp(st, compMdom(ks, vs), ds, sto(d, r.T, "((as const (Array "+ks+" Bool)) false)"))
		v := vc.comp(st, compMval(ks, vs), vsS)
		vc.setComp(st, compMval(ks, vs), vsS, sto(v, r.T, "((as const (Array "+ks+" "+vs+")) "+f.sr().zero(mt.Elem())+")"))
		f.setVal(x, r)
	case *ssa.MakeSlice:
		f.makeSlice(x, st)
	case *ssa.MapUpdate:
		f.mapUpdate(x, st)
	case *ssa.Range:
		f.setVal(x, TV{T: "0", S: "Int", Ty: x.Type()})
		if n, ok := f.visitedName[x]; ok {
			g := st.ghost[n]
			ks := f.visitedKeySort[n]
			g.T = "((as const (Array " + ks + " Bool)) false)"
			st.ghost[n] = g
		}
	case *ssa.Next:
		f.next(x, st)
	case *ssa.Extract:
		tv := f.val(x.Tuple)
		if x.Index >= len(tv.Tuple) {
			unsup("extract from non-tuple")
		}
		f.setVal(x, tv.Tuple[x.Index])
	case *ssa.TypeAssert:
		f.typeAssert(x, st)
	case *ssa.ChangeInterface:
		tv := f.val(x.X)
		tv.Ty = x.Type()
		f.setVal(x, tv)
	case *ssa.ChangeType:
		tv := f.val(x.X)
		if f.sortOf(x.Type()) != tv.S {
			unsup("ChangeType between sorts %s and %s", tv.S, f.sortOf(x.Type()))
		}
		tv.Ty = x.Type()
		f.setVal(x, tv)
	case *ssa.Convert:
		f.convert(x, st)
	case *ssa.MultiConvert:
		unsup("MultiConvert")
	case *ssa.SliceToArrayPointer:
		unsup("SliceToArrayPointer")
	case ssa.CallInstruction:
		f.call(x, st)
	default:
		unsup("instruction %T", in)
	}
}

func (f *frame) debugRef(x *ssa.DebugRef) {
	// handled by Env lookup through fn.Blocks scan; nothing to do at exec time
}

func (f *frame) panicText(x *ssa.Panic) string {
	if mi, ok := x.X.(*ssa.MakeInterface); ok {
		if c, ok := mi.X.(*ssa.Const); ok && c.Value != nil && c.Value.Kind() == constant.String {
			s := constant.StringVal(c.Value)
			if len(s) > 60 {
				s = s[:60]
			}
			return "panic(" + s + ")"
		}
	}
	return "panic"
}

func (f *frame) panicsClauses() []*Clause {
	if !f.top || f.contract == nil {
		return nil
	}
	var out []*Clause
	for _, c := range f.contract.Ensures {
		if c.Kind == "panics" && f.eng().clauseActive(c) {
			out = append(out, c)
		}
	}
	return out
}

func (f *frame) allowPanic(x *ssa.Panic) bool {
	if f.contract != nil && f.contract.MayPanic {
		return true
	}
	return false
}

func (f *frame) nilCheck(st *bstate, v ssa.Value, lv *LV, pos token.Pos) {
	// receivers, parameters, allocs and sub-objects are non-nil; loaded or
	// returned pointers are checked.
	switch p := v.(type) {
	case *ssa.Alloc, *ssa.FieldAddr, *ssa.IndexAddr, *ssa.Global, *ssa.FreeVar:
		return
	case *ssa.Parameter:
		if f.top && f.contract != nil && f.contract.Nullable[p.Name()] {
			f.oblige(st, "nil", f.text(pos, v.Name()), fmt.Sprintf("(not (= %s 0))", lv.ref), pos)
			return
		}
		f.vc.note("assumed: pointer parameters and receivers are non-nil")
		return
	case *ssa.Phi:
		_ = p
	}
	if !f.eng().opts.NilChecks && os.Getenv("GVC_NIL") == "" {
		return
	}
	f.oblige(st, "nil", f.text(pos, v.Name()), fmt.Sprintf("(not (= %s 0))", lv.ref), pos)
}

func (f *frame) freshRef(st *bstate, hint string, t types.Type) TV {
	r := f.vc.fresh(f.id+hint, "Int")
	f.vc.assert(fmt.Sprintf("(and (= %s %s) (> %s 0))", r, st.alloc, r))
	st.alloc = f.vc.define("alloc", "Int", "(+ "+st.alloc+" 1)")
	return TV{T: r, S: "Int", Ty: t}
}

func (f *frame) alloc(x *ssa.Alloc, st *bstate) {
	et := x.Type().(*types.Pointer).Elem()
	r := f.freshRef(st, x.Name()+"."+x.Comment, x.Type())
	f.setVal(x, r)
	la := &localAlloc{ref: r, ty: et, instr: x, escaped: allocEscapes(x)}
	f.locals = append(f.locals, la)
	if la.escaped {
		// flow-sensitive refinement: until one of its escape sites has executed
		// the object is still private
		if sites, ok := escapeSites(x); ok {
			top := f
			for top.caller != nil {
				top = top.caller
			}
			if top.escSites == nil {
				top.escSites = map[ssa.Instruction][]string{}
			}
			for _, s := range sites {
				top.escSites[s] = append(top.escSites[s], r.T)
			}
			la.tracked = true
		}
	}
	// zero-initialise
	lv := f.lvOfRef(r.T, et)
	f.store(st, lv, TV{T: f.sr().zero(et), S: f.sortOf(et), Ty: et})
}

// allocEscapes: conservative syntactic escape analysis.
func allocEscapes(a ssa.Value) bool {
	seen := map[ssa.Value]bool{}
	var esc func(v ssa.Value) bool
	esc = func(v ssa.Value) bool {
		if seen[v] {
			return false
		}
		seen[v] = true
		refs := v.Referrers()
		if refs == nil {
			return true
		}
		for _, r := range *refs {
			switch u := r.(type) {
			case *ssa.DebugRef:
			case *ssa.UnOp:
				if u.Op != token.MUL {
					return true
				}
			case *ssa.Store:
				if u.Val == v {
					return true
				}
			case *ssa.MakeClosure:
				if readOnlyCapture(a, u) {
					// the literal (and whatever it is passed to) can only read the cell
					continue
				}
				// captured by a function literal that is only deferred: the cell stays
				// private to this function and that literal (which is executed in place)
				crefs := u.Referrers()
				if crefs == nil {
					return true
				}
				for _, cr := range *crefs {
					if _, isDefer := cr.(*ssa.Defer); !isDefer {
						if _, isDbg := cr.(*ssa.DebugRef); !isDbg {
							return true
						}
					}
				}
				if fn, ok := u.Fn.(*ssa.Function); !ok || !simpleLiteral(fn) {
					return true
				}
			case *ssa.FieldAddr:
				if esc(u) {
					return true
				}
			case *ssa.IndexAddr:
				if esc(u) {
					return true
				}
			case *ssa.Slice:
				// the slice aliases the array: only builtin uses are fine
				srefs := u.Referrers()
				if srefs == nil {
					return true
				}
				for _, sr := range *srefs {
					switch c := sr.(type) {
					case *ssa.DebugRef:
					case *ssa.Call:
						b, ok := c.Call.Value.(*ssa.Builtin)
						if !ok {
							return true
						}
						switch b.Name() {
						case "len", "cap", "copy":
						case "append":
							// as the appended-from argument only
							if len(c.Call.Args) > 0 && c.Call.Args[0] == ssa.Value(u) {
								return true
							}
						default:
							return true
						}
					default:
						return true
					}
				}
			default:
				return true
			}
		}
		return false
	}
	return esc(a)
}

// ---------------------------------------------------------------------------
// arithmetic

func (f *frame) toInt(v TV) string {
	if isBV(v.S) {
		return "(bv2nat " + v.T + ")"
	}
	return v.T
}

func (f *frame) coerce(v TV, sort string) string {
	if v.S == sort {
		return v.T
	}
	if isBV(sort) && v.S == "Int" {
		if n, ok := parseIntLit(v.T); ok && n >= 0 {
			return bvLit(uint64(n), bvWidth(sort))
		}
		return fmt.Sprintf("((_ int2bv %d) %s)", bvWidth(sort), v.T)
	}
	if sort == "Int" && isBV(v.S) {
		return "(bv2nat " + v.T + ")"
	}
	if isBV(sort) && isBV(v.S) {
		w, vw := bvWidth(sort), bvWidth(v.S)
		if w > vw {
			return fmt.Sprintf("((_ zero_extend %d) %s)", w-vw, v.T)
		}
		return fmt.Sprintf("((_ extract %d 0) %s)", w-1, v.T)
	}
	unsup("coerce %s to %s", v.S, sort)
	return ""
}

func parseIntLit(s string) (int64, bool) {
	var n int64
	if _, err := fmt.Sscanf(s, "%d", &n); err == nil && fmt.Sprint(n) == s {
		return n, true
	}
	if strings.HasPrefix(s, "(- ") {
		if _, err := fmt.Sscanf(s, "(- %d)", &n); err == nil {
			return -n, true
		}
	}
	return 0, false
}

func (f *frame) binop(x *ssa.BinOp, st *bstate) TV {
	a, b := f.val(x.X), f.val(x.Y)
	rs := f.sortOf(x.Type())
	t := f.binopTerm(x.Op, a, b, rs, x.X.Type(), st, x.Pos())
	return TV{T: t, S: rs, Ty: x.Type()}
}

func (f *frame) binopTerm(op token.Token, a, b TV, rs string, opndTy types.Type, st *bstate, pos token.Pos) string {
	vc := f.vc
	s := a.S
	switch op {
	case token.EQL, token.NEQ:
		var e string
		switch s {
		case "Iface":
			e = f.ifaceEq(a.T, b.T)
		case "Slice":
			// only comparison with nil is legal
			if b.T == zeroOfSort("Slice") {
				e = "(= (s_base " + a.T + ") 0)"
			} else if a.T == zeroOfSort("Slice") {
				e = "(= (s_base " + b.T + ") 0)"
			} else {
				e = eq(a.T, b.T)
			}
		default:
			e = eq(a.T, f.coerce(b, s))
		}
		if op == token.NEQ {
			return not(e)
		}
		return e
	}
	switch {
	case s == "Int":
		bt := f.coerce(b, "Int")
		switch op {
		case token.ADD:
			return "(+ " + a.T + " " + bt + ")"
		case token.SUB:
			return "(- " + a.T + " " + bt + ")"
		case token.MUL:
			return "(* " + a.T + " " + bt + ")"
		case token.QUO:
			if st != nil {
				f.oblige(st, "div", f.text(pos, "division"), not(eq(bt, "0")), pos)
			}
			return "(tdiv " + a.T + " " + bt + ")"
		case token.REM:
			if st != nil {
				f.oblige(st, "div", f.text(pos, "remainder"), not(eq(bt, "0")), pos)
			}
			return "(tmod " + a.T + " " + bt + ")"
		case token.LSS:
			return "(< " + a.T + " " + bt + ")"
		case token.LEQ:
			return "(<= " + a.T + " " + bt + ")"
		case token.GTR:
			return "(> " + a.T + " " + bt + ")"
		case token.GEQ:
			return "(>= " + a.T + " " + bt + ")"
		case token.SHL:
			if n, ok := parseIntLit(bt); ok && n >= 0 && n < 62 {
				return fmt.Sprintf("(* %s %d)", a.T, int64(1)<<uint(n))
			}
			return "(ishl " + a.T + " " + bt + ")"
		case token.SHR:
			if n, ok := parseIntLit(bt); ok && n >= 0 && n < 62 {
				return fmt.Sprintf("(div %s %d)", a.T, int64(1)<<uint(n))
			}
			return "(ishr " + a.T + " " + bt + ")"
		case token.AND:
			if x, ok1 := parseIntLit(a.T); ok1 {
				if y, ok2 := parseIntLit(bt); ok2 && x >= 0 && y >= 0 {
					return intLit(x & y)
				}
			}
			t := "(iand " + a.T + " " + bt + ")"
			if y, ok := parseIntLit(bt); ok && y > 0 && (y&(y+1)) == 0 {
				// x & (2^k-1) == x mod 2^k for x >= 0
				vc.assert(fmt.Sprintf("(=> (>= %s 0) (= %s (mod %s %d)))", a.T, t, a.T, y+1))
			}
			// 0 <= x&y <= y for y >= 0 (and symmetrically)
			vc.assert(fmt.Sprintf("(and (=> (>= %s 0) (and (>= %s 0) (<= %s %s))) (=> (>= %s 0) (and (>= %s 0) (<= %s %s))))", bt, t, t, bt, a.T, t, t, a.T))
			return t
		case token.OR:
			return "(ior " + a.T + " " + bt + ")"
		case token.XOR:
			return "(ixor " + a.T + " " + bt + ")"
		case token.AND_NOT:
			vc.note("abstracted: &^ on int")
			return vc.fresh("andnot", "Int")
		}
	case isBV(s):
		bt := f.coerce(b, s)
		m := map[token.Token]string{token.ADD: "bvadd", token.SUB: "bvsub", token.MUL: "bvmul", token.AND: "bvand", token.OR: "bvor", token.XOR: "bvxor", token.SHL: "bvshl", token.SHR: "bvlshr", token.LSS: "bvult", token.LEQ: "bvule", token.GTR: "bvugt", token.GEQ: "bvuge"}
		switch op {
		case token.QUO:
			if st != nil {
				f.oblige(st, "div", f.text(pos, "division"), not(eq(bt, bvLit(0, bvWidth(s)))), pos)
			}
			return "(bvudiv " + a.T + " " + bt + ")"
		case token.REM:
			if st != nil {
				f.oblige(st, "div", f.text(pos, "remainder"), not(eq(bt, bvLit(0, bvWidth(s)))), pos)
			}
			return "(bvurem " + a.T + " " + bt + ")"
		case token.AND_NOT:
			return "(bvand " + a.T + " (bvnot " + bt + "))"
		case token.SHL, token.SHR:
			// shift counts >= width give 0, which bvshl/bvlshr do as well
			// but a count that does not fit the width must saturate
			if b.S == "Int" {
				if _, ok := parseIntLit(b.T); !ok {
					w := bvWidth(s)
					sh := fmt.Sprintf("((_ int2bv %d) %s)", w, b.T)
					return ite(fmt.Sprintf("(>= %s %d)", b.T, w), bvLit(0, w), "("+m[op]+" "+a.T+" "+sh+")")
				}
			}
			return "(" + m[op] + " " + a.T + " " + bt + ")"
		}
		if o, ok := m[op]; ok {
			return "(" + o + " " + a.T + " " + bt + ")"
		}
	case s == "Str":
		switch op {
		case token.ADD:
			return f.strConcat(a.T, b.T)
		case token.LSS:
			return "(slt " + a.T + " " + b.T + ")"
		case token.GTR:
			return "(slt " + b.T + " " + a.T + ")"
		case token.LEQ:
			return not("(slt " + b.T + " " + a.T + ")")
		case token.GEQ:
			return not("(slt " + a.T + " " + b.T + ")")
		}
	case s == "Real":
		switch op {
		case token.LSS, token.LEQ, token.GTR, token.GEQ:
			return vc.fresh("fcmp", "Bool")
		}
		return vc.fresh("fop", "Real")
	case s == "Bool":
		switch op {
		case token.AND, token.LAND:
			return and(a.T, b.T)
		case token.OR, token.LOR:
			return or(a.T, b.T)
		}
	}
	unsup("binop %s on sort %s", op, s)
	return ""
}

func (f *frame) ifaceEq(a, b string) string {
	nilI := zeroOfSort("Iface")
	if b == nilI {
		return "(= (i_tag " + a + ") 0)"
	}
	if a == nilI {
		return "(= (i_tag " + b + ") 0)"
	}
	return fmt.Sprintf("(or (= %s %s) (and (= (i_tag %s) 0) (= (i_tag %s) 0)))", a, b, a, b)
}

// strAxioms emits the quantified axioms of the string functions once.
func (vc *VC) strAxioms() {
	if vc.funcsSeen["straxioms"] {
		return
	}
	vc.funcsSeen["straxioms"] = true
	vc.assert("(forall ((s Str) (lo Int) (hi Int)) (! (=> (and (<= 0 lo) (<= lo hi) (<= hi (slen s))) (= (slen (ssub s lo hi)) (- hi lo))) :pattern ((ssub s lo hi))))")
	vc.assert("(forall ((s Str) (lo Int) (hi Int) (i Int)) (! (=> (and (<= 0 lo) (<= lo hi) (<= hi (slen s)) (<= 0 i) (< i (- hi lo))) (= (sbyte (ssub s lo hi) i) (sbyte s (+ lo i)))) :pattern ((sbyte (ssub s lo hi) i))))")
	vc.assert("(forall ((a Str) (b Str)) (! (= (slen (sconcat a b)) (+ (slen a) (slen b))) :pattern ((sconcat a b))))")
	vc.assert("(forall ((a Str) (b Str) (i Int)) (! (= (sbyte (sconcat a b) i) (ite (< i (slen a)) (sbyte a i) (sbyte b (- i (slen a))))) :pattern ((sbyte (sconcat a b) i))))")
	vc.assert("(forall ((s Str)) (! (and (>= (slen s) 0) (= (= (slen s) 0) (= s str_empty))) :pattern ((slen s))))")
	vc.assert("(forall ((s Str)) (! (= (ssub s 0 (slen s)) s) :pattern ((ssub s 0 (slen s)))))")
}

func (f *frame) strConcat(a, b string) string {
	vc := f.vc
	if f.boundDepth > 0 {
		vc.strAxioms()
		return "(sconcat " + a + " " + b + ")"
	}
	t := vc.define("cat", "Str", "(sconcat "+a+" "+b+")")
	vc.assert(fmt.Sprintf("(= (slen %s) (+ (slen %s) (slen %s)))", t, a, b))
	vc.strFacts(t)
	if f.eng().opts.StrBytes {
		vc.assert(fmt.Sprintf("(forall ((i Int)) (! (= (sbyte %s i) (ite (< i (slen %s)) (sbyte %s i) (sbyte %s (- i (slen %s))))) :pattern ((sbyte %s i))))", t, a, a, b, a, t))
	}
	return t
}

func (f *frame) strSub(s, lo, hi string) string {
	vc := f.vc
	if f.boundDepth > 0 {
		vc.strAxioms()
		return "(ssub " + s + " " + lo + " " + hi + ")"
	}
	t := vc.define("sub", "Str", "(ssub "+s+" "+lo+" "+hi+")")
	vc.assert(fmt.Sprintf("(=> (and (<= 0 %s) (<= %s %s) (<= %s (slen %s))) (= (slen %s) (- %s %s)))", lo, lo, hi, hi, s, t, hi, lo))
	vc.strFacts(t)
	if lo == "0" {
		vc.assert(fmt.Sprintf("(=> (= %s (slen %s)) (= %s %s))", hi, s, t, s))
	}
	if f.eng().opts.StrBytes {
		vc.assert(fmt.Sprintf("(forall ((i Int)) (! (=> (and (<= 0 i) (< i (- %s %s))) (= (sbyte %s i) (sbyte %s (+ %s i)))) :pattern ((sbyte %s i))))", hi, lo, t, s, lo, t))
	}
	return t
}

func (f *frame) unop(x *ssa.UnOp, st *bstate) {
	vc := f.vc
	switch x.Op {
	case token.MUL:
		lv := f.lvalOf(x.X)
		if lv.kind == lvCell || lv.kind == lvStruct || lv.kind == lvArr {
			f.nilCheck(st, x.X, lv, x.Pos())
		}
		tv := f.load(st, lv)
		tv.T = vc.define(f.id+x.Name(), tv.S, tv.T)
		tv.Ty = x.Type()
		f.setVal(x, tv)
		if _, isG := x.X.(*ssa.Global); !isG || true {
			f.loadFacts(st, tv)
		}
	case token.NOT:
		f.setVal(x, TV{T: not(f.val(x.X).T), S: "Bool", Ty: x.Type()})
	case token.SUB:
		v := f.val(x.X)
		if isBV(v.S) {
			f.setVal(x, TV{T: "(bvneg " + v.T + ")", S: v.S, Ty: x.Type()})
		} else if v.S == "Int" {
			f.setVal(x, TV{T: "(- " + v.T + ")", S: v.S, Ty: x.Type()})
		} else {
			f.setVal(x, f.havocValue(st, x.Name(), x.Type()))
		}
	case token.XOR:
		v := f.val(x.X)
		if isBV(v.S) {
			f.setVal(x, TV{T: "(bvnot " + v.T + ")", S: v.S, Ty: x.Type()})
		} else {
			f.setVal(x, TV{T: "(- (- " + v.T + ") 1)", S: v.S, Ty: x.Type()})
		}
	case token.ARROW:
		if f.cancellable && f.caller == nil && !f.isCancelChan(x.X) {
			f.oblige(st, "cancellable", "receive outside a select that waits for cancellation", "false", x.Pos())
		}
		vc.note("abstracted: channel receive in " + f.fn.String())
		f.havocAll(st, "recv")
		f.setVal(x, f.havocValue(st, f.id+x.Name(), x.Type()))
	default:
		unsup("unop %s", x.Op)
	}
}

// loadFacts: representation invariants of loaded values (guarded by alive)
func (f *frame) loadFacts(st *bstate, tv TV) {
	f.noInvAssume = true
	defer func() { f.noInvAssume = false }()
	for _, fact := range f.wfFacts(tv.T, tv.Ty, st.alloc, 1) {
		f.assume(st, fact)
	}
}

// ---------------------------------------------------------------------------
// indexing and slicing

func (f *frame) idxInt(v ssa.Value) string { return f.toInt(f.val(v)) }

func (f *frame) indexAddr(x *ssa.IndexAddr, st *bstate) {
	idx := f.idxInt(x.Index)
	switch t := x.X.Type().Underlying().(type) {
	case *types.Slice:
		s := f.val(x.X)
		f.oblige(st, "index", f.text(x.Pos(), x.Name()), fmt.Sprintf("(and (<= 0 %s) (< %s (s_len %s)))", idx, idx, s.T), x.Pos())
		es := f.sortOf(t.Elem())
		f.lvs[x] = &LV{kind: lvMem, comp: compMem(es), csort: es, ref: "(s_base " + s.T + ")", idx: f.vc.define("ix", "Int", "(+ (s_off "+s.T+") "+idx+")"), ty: t.Elem(), rootTy: t.Elem()}
	case *types.Pointer:
		at := t.Elem().Underlying().(*types.Array)
		f.oblige(st, "index", f.text(x.Pos(), x.Name()), fmt.Sprintf("(and (<= 0 %s) (< %s %d))", idx, idx, at.Len()), x.Pos())
		base := f.lvalOf(x.X)
		switch base.kind {
		case lvArr:
			f.lvs[x] = &LV{kind: lvMem, comp: base.comp, csort: base.csort, ref: base.ref, idx: idx, ty: at.Elem(), rootTy: at.Elem()}
		default:
			n := *base
			n.path = append(append([]pathElem{}, base.path...), pathElem{field: -1, idx: idx, ty: base.ty})
			n.ty = at.Elem()
			f.lvs[x] = &n
		}
	default:
		unsup("IndexAddr on %s", x.X.Type())
	}
}

func (f *frame) index(x *ssa.Index, st *bstate) {
	idx := f.idxInt(x.Index)
	v := f.val(x.X)
	switch t := x.X.Type().Underlying().(type) {
	case *types.Array:
		f.oblige(st, "index", f.text(x.Pos(), x.Name()), fmt.Sprintf("(and (<= 0 %s) (< %s %d))", idx, idx, t.Len()), x.Pos())
		f.setVal(x, TV{T: sel(v.T, idx), S: f.sortOf(t.Elem()), Ty: t.Elem()})
	case *types.Basic: // string
		f.oblige(st, "index", f.text(x.Pos(), x.Name()), fmt.Sprintf("(and (<= 0 %s) (< %s (slen %s)))", idx, idx, v.T), x.Pos())
		f.setVal(x, TV{T: "(sbyte " + v.T + " " + idx + ")", S: bvSort(8), Ty: x.Type()})
	default:
		unsup("Index on %s", x.X.Type())
	}
}

func (f *frame) lookup(x *ssa.Lookup, st *bstate) {
	vc := f.vc
	v := f.val(x.X)
	switch t := x.X.Type().Underlying().(type) {
	case *types.Basic: // string
		idx := f.idxInt(x.Index)
		f.oblige(st, "index", f.text(x.Pos(), x.Name()), fmt.Sprintf("(and (<= 0 %s) (< %s (slen %s)))", idx, idx, v.T), x.Pos())
		f.setVal(x, TV{T: "(sbyte " + v.T + " " + idx + ")", S: bvSort(8), Ty: types.Typ[types.Uint8]})
	case *types.Map:
		ks, vs := f.sortOf(t.Key()), f.sortOf(t.Elem())
		k := f.val(x.Index)
		kt := f.coerceKey(k, ks)
		d := sel(sel(vc.comp(st, compMdom(ks, vs), "(Array Int (Array "+ks+" Bool))"), v.T), kt)
		val := sel(sel(vc.comp(st, compMval(ks, vs), "(Array Int (Array "+ks+" "+vs+"))"), v.T), kt)
		// absent keys (and nil maps) give the zero value
		ok := and(not(eq(v.T, "0")), d)
		res := TV{T: vc.define(f.id+x.Name(), vs, ite(ok, val, f.sr().zero(t.Elem()))), S: vs, Ty: t.Elem()}
		f.loadFacts(st, res)
		if x.CommaOk {
			okc := vc.define(f.id+x.Name()+".ok", "Bool", ok)
			f.setVal(x, TV{Tuple: []TV{res, {T: okc, S: "Bool", Ty: types.Typ[types.Bool]}}})
		} else {
			f.setVal(x, res)
		}
	default:
		unsup("Lookup on %s", x.X.Type())
	}
}

func (f *frame) coerceKey(k TV, ks string) string {
	if k.S == ks {
		return k.T
	}
	return f.coerce(k, ks)
}

func (f *frame) mapUpdate(x *ssa.MapUpdate, st *bstate) {
	vc := f.vc
	m := f.val(x.Map)
	t := x.Map.Type().Underlying().(*types.Map)
	ks, vs := f.sortOf(t.Key()), f.sortOf(t.Elem())
	f.oblige(st, "nilmap", f.text(x.Pos(), "map update"), not(eq(m.T, "0")), x.Pos())
	k := f.coerceKey(f.val(x.Key), ks)
	v := f.val(x.Value)
	ds, vsS := "(Array Int (Array "+ks+" Bool))", "(Array Int (Array "+ks+" "+vs+"))"
	d := vc.comp(st, compMdom(ks, vs), ds)
	vc.setComp(st, compMdom(ks, vs), ds, sto(d, m.T, sto(sel(d, m.T), k, "true")))
	vv := vc.comp(st, compMval(ks, vs), vsS)
	vc.setComp(st, compMval(ks, vs), vsS, sto(vv, m.T, sto(sel(vv, m.T), k, v.T)))
}

func (f *frame) slice(x *ssa.Slice, st *bstate) {
	vc := f.vc
	optInt := func(v ssa.Value, def string) string {
		if v == nil {
			return def
		}
		return f.idxInt(v)
	}
	switch t := x.X.Type().Underlying().(type) {
	case *types.Slice:
		s := f.val(x.X)
		lo := optInt(x.Low, "0")
		hi := optInt(x.High, "(s_len "+s.T+")")
		mx := optInt(x.Max, "(s_cap "+s.T+")")
		f.oblige(st, "slice", f.text(x.Pos(), x.Name()), fmt.Sprintf("(and (<= 0 %s) (<= %s %s) (<= %s %s) (<= %s (s_cap %s)))", lo, lo, hi, hi, mx, mx, s.T), x.Pos())
		r := fmt.Sprintf("(mk_slice (s_base %s) (+ (s_off %s) %s) (- %s %s) (- %s %s))", s.T, s.T, lo, hi, lo, mx, lo)
		f.setVal(x, TV{T: vc.define(f.id+x.Name(), "Slice", r), S: "Slice", Ty: x.Type()})
	case *types.Basic: // string
		s := f.val(x.X)
		lo := optInt(x.Low, "0")
		hi := optInt(x.High, "(slen "+s.T+")")
		f.oblige(st, "slice", f.text(x.Pos(), x.Name()), fmt.Sprintf("(and (<= 0 %s) (<= %s %s) (<= %s (slen %s)))", lo, lo, hi, hi, s.T), x.Pos())
		f.setVal(x, TV{T: f.strSub(s.T, lo, hi), S: "Str", Ty: x.Type()})
	case *types.Pointer: // *array
		at := t.Elem().Underlying().(*types.Array)
		base := f.lvalOf(x.X)
		if base.kind != lvArr {
			unsup("slice of array that is not an array object")
		}
		n := fmt.Sprint(at.Len())
		lo := optInt(x.Low, "0")
		hi := optInt(x.High, n)
		mx := optInt(x.Max, n)
		f.oblige(st, "slice", f.text(x.Pos(), x.Name()), fmt.Sprintf("(and (<= 0 %s) (<= %s %s) (<= %s %s) (<= %s %s))", lo, lo, hi, hi, mx, mx, n), x.Pos())
		r := fmt.Sprintf("(mk_slice %s %s (- %s %s) (- %s %s))", base.ref, lo, hi, lo, mx, lo)
		f.setVal(x, TV{T: vc.define(f.id+x.Name(), "Slice", r), S: "Slice", Ty: x.Type()})
	default:
		unsup("Slice on %s", x.X.Type())
	}
}

func (f *frame) makeSlice(x *ssa.MakeSlice, st *bstate) {
	vc := f.vc
	l, c := f.idxInt(x.Len), f.idxInt(x.Cap)
	f.oblige(st, "make", f.text(x.Pos(), x.Name()), fmt.Sprintf("(and (<= 0 %s) (<= %s %s))", l, l, c), x.Pos())
	r := f.freshRef(st, x.Name(), x.Type())
	et := x.Type().Underlying().(*types.Slice).Elem()
	es := f.sortOf(et)
	m := vc.comp(st, compMem(es), arr2(es))
	vc.setComp(st, compMem(es), arr2(es), sto(m, r.T, "((as const (Array Int "+es+")) "+f.sr().zero(et)+")"))
	f.setVal(x, TV{T: vc.define(f.id+x.Name(), "Slice", fmt.Sprintf("(mk_slice %s 0 %s %s)", r.T, l, c)), S: "Slice", Ty: x.Type()})
}

// ---------------------------------------------------------------------------
// interfaces

func (f *frame) boxFns(sort string) (string, string) {
	b := f.vc.declareFun("box:"+sort, []string{sort}, "Int")
	u := f.vc.declareFun("unbox:"+sort, []string{"Int"}, sort)
	return b, u
}

func (f *frame) makeIface(v TV, dyn types.Type) string {
	vc := f.vc
	b, u := f.boxFns(v.S)
	tag := vc.tagOf(dyn)
	box := "(" + b + " " + v.T + ")"
	if v.S == "Int" {
		if _, isPtr := dyn.Underlying().(*types.Pointer); isPtr {
			box = v.T
		}
	}
	key := "boxfact:" + box
	if box != v.T && !vc.funcsSeen[key] {
		vc.funcsSeen[key] = true
		vc.assert(eq("("+u+" "+box+")", v.T))
	}
	return fmt.Sprintf("(mk_iface %d %s)", tag, box)
}

func (f *frame) unboxIface(i string, dyn types.Type) TV {
	s := f.sortOf(dyn)
	if s == "Int" {
		if _, isPtr := dyn.Underlying().(*types.Pointer); isPtr {
			return TV{T: "(i_box " + i + ")", S: s, Ty: dyn}
		}
	}
	_, u := f.boxFns(s)
	return TV{T: "(" + u + " (i_box " + i + "))", S: s, Ty: dyn}
}

func (f *frame) makeInterface(x *ssa.MakeInterface, st *bstate) {
	v := f.val(x.X)
	t := f.makeIface(v, x.X.Type())
	f.setVal(x, TV{T: f.vc.define(f.id+x.Name(), "Iface", t), S: "Iface", Ty: x.Type()})
}

func (f *frame) typeAssert(x *ssa.TypeAssert, st *bstate) {
	vc := f.vc
	v := f.val(x.X)
	var ok string
	var res TV
	if it, isI := x.AssertedType.Underlying().(*types.Interface); isI {
		if st, isSI := x.X.Type().Underlying().(*types.Interface); isSI && types.Implements(st, it) {
			// static type already guarantees the methods: only nil fails
			ok = "(not (= (i_tag " + v.T + ") 0))"
		} else {
			ok = f.implements(v.T, x.AssertedType, it)
		}
		res = TV{T: v.T, S: "Iface", Ty: x.AssertedType}
	} else {
		ok = fmt.Sprintf("(= (i_tag %s) %d)", v.T, vc.tagOf(x.AssertedType))
		res = f.unboxIface(v.T, x.AssertedType)
		// re-boxing the extracted value gives the same interface value
		if bx, _ := f.boxFns(res.S); !(res.S == "Int" && isPointerType(x.AssertedType)) {
			f.assume(st, implies(ok, eq("("+bx+" "+res.T+")", "(i_box "+v.T+")")))
		}
	}
	if x.CommaOk {
		okc := vc.define(f.id+x.Name()+".ok", "Bool", ok)
		// on failure the value is the zero value
		zero := f.sr().zero(x.AssertedType)
		res.T = vc.define(f.id+x.Name()+".v", res.S, ite(okc, res.T, zero))
		f.setVal(x, TV{Tuple: []TV{res, {T: okc, S: "Bool", Ty: types.Typ[types.Bool]}}})
		if res.S != "Iface" {
			f.assumeWf(st, okc, res)
		}
		return
	}
	f.oblige(st, "assert-type", f.text(x.Pos(), x.Name()), ok, x.Pos())
	res.T = vc.define(f.id+x.Name(), res.S, res.T)
	f.setVal(x, res)
	f.loadFacts(st, res)
}

func (f *frame) assumeWf(st *bstate, cond string, tv TV) {
	f.noInvAssume = true
	defer func() { f.noInvAssume = false }()
	for _, fact := range f.wfFacts(tv.T, tv.Ty, st.alloc, 1) {
		f.assume(st, implies(cond, fact))
	}
}

// implements: does the dynamic type of iface term v implement interface it?
func (f *frame) implements(v string, named types.Type, it *types.Interface) string {
	vc := f.vc
	if it.NumMethods() == 0 {
		return "(not (= (i_tag " + v + ") 0))"
	}
	fn := vc.declareFun("impl:"+types.TypeString(named, nil), []string{"Int"}, "Bool")
	key := "implnil:" + fn
	if !vc.funcsSeen[key] {
		vc.funcsSeen[key] = true
		vc.assert("(not (" + fn + " 0))")
	}
	vc.eng.implQueries[fn] = implQ{named, it}
	return "(" + fn + " (i_tag " + v + "))"
}

// ---------------------------------------------------------------------------
// conversions

func (f *frame) convert(x *ssa.Convert, st *bstate) {
	vc := f.vc
	v := f.val(x.X)
	ts := f.sortOf(x.Type())
	from, to := x.X.Type().Underlying(), x.Type().Underlying()
	switch {
	case v.S == ts && v.S != "Slice" && v.S != "Str":
		v.Ty = x.Type()
		f.setVal(x, v)
	case (isBV(v.S) || v.S == "Int") && (isBV(ts) || ts == "Int"):
		if ts == "Int" {
			if b, ok := to.(*types.Basic); ok && isBV(v.S) && (b.Kind() == types.Int8 || b.Kind() == types.Int16 || (b.Kind() == types.Int32 && bvWidth(v.S) >= 32) || (b.Kind() == types.Int64 || b.Kind() == types.Int) && bvWidth(v.S) >= 64) {
				vc.note("assumed: machine integers treated as mathematical (narrowing conversion ignored)")
			}
		}
		f.setVal(x, TV{T: f.coerce(v, ts), S: ts, Ty: x.Type()})
	case v.S == "Str" && ts == "Slice":
		sl := to.(*types.Slice)
		es := f.sortOf(sl.Elem())
		r := f.freshRef(st, x.Name(), x.Type())
		if es == bvSort(8) {
			row := vc.fresh("row", arr1(es))
			vc.assert(fmt.Sprintf("(forall ((i Int)) (! (=> (and (<= 0 i) (< i (slen %s))) (= (select %s i) (sbyte %s i))) :pattern ((select %s i))))", v.T, row, v.T, row))
			m := vc.comp(st, compMem(es), arr2(es))
			vc.setComp(st, compMem(es), arr2(es), sto(m, r.T, row))
			f.setVal(x, TV{T: vc.define(f.id+x.Name(), "Slice", fmt.Sprintf("(mk_slice %s 0 (slen %s) (slen %s))", r.T, v.T, v.T)), S: "Slice", Ty: x.Type()})
		} else {
			// []rune(s)
			n := vc.fresh("runes", "Int")
			vc.assert(fmt.Sprintf("(and (<= 0 %s) (<= %s (slen %s)))", n, n, v.T))
			m := vc.comp(st, compMem(es), arr2(es))
			vc.setComp(st, compMem(es), arr2(es), sto(m, r.T, vc.fresh("row", arr1(es))))
			f.setVal(x, TV{T: vc.define(f.id+x.Name(), "Slice", fmt.Sprintf("(mk_slice %s 0 %s %s)", r.T, n, n)), S: "Slice", Ty: x.Type()})
		}
	case v.S == "Slice" && ts == "Str":
		sl := from.(*types.Slice)
		es := f.sortOf(sl.Elem())
		if es == bvSort(8) {
			f.setVal(x, TV{T: f.bytesToStr(st, v.T), S: "Str", Ty: x.Type()})
		} else {
			f.setVal(x, f.havocValue(st, f.id+x.Name(), x.Type()))
		}
	case ts == "Str" && (v.S == "Int" || isBV(v.S)):
		fn := vc.declareFun("str_of_rune", []string{"Int"}, "Str")
		t := "(" + fn + " " + f.toInt(v) + ")"
		t = vc.define("s", "Str", t)
		vc.strFacts(t)
		f.setVal(x, TV{T: t, S: "Str", Ty: x.Type()})
	case ts == "Real" || v.S == "Real":
		f.setVal(x, f.havocValue(st, f.id+x.Name(), x.Type()))
	case v.S == "Int" && ts == "Int":
		v.Ty = x.Type()
		f.setVal(x, v)
	default:
		_ = from
		unsup("convert %s to %s", x.X.Type(), x.Type())
	}
}

// bytesToStr: string(b) — a Str term that is a function of the row contents.
func (f *frame) bytesToStr(st *bstate, s string) string {
	vc := f.vc
	if f.boundDepth > 0 {
		cfail("string(bytes) conversion under a quantifier or in a spec body is not supported")
	}
	es := bvSort(8)
	fn := vc.declareFun("str_of_bytes", []string{arr1(es), "Int", "Int"}, "Str")
	row := sel(vc.comp(st, compMem(es), arr2(es)), "(s_base "+s+")")
	t := vc.define("str", "Str", fmt.Sprintf("(%s %s (s_off %s) (s_len %s))", fn, row, s, s))
	vc.assert(fmt.Sprintf("(= (slen %s) (s_len %s))", t, s))
	vc.strFacts(t)
	vc.assert(fmt.Sprintf("(forall ((i Int)) (! (=> (and (<= 0 i) (< i (s_len %s))) (= (sbyte %s i) (select %s (+ (s_off %s) i)))) :pattern ((sbyte %s i))))", s, t, row, s, t))
	return t
}

// ---------------------------------------------------------------------------
// range/next

func (f *frame) next(x *ssa.Next, st *bstate) {
	vc := f.vc
	rng, ok := x.Iter.(*ssa.Range)
	if !ok {
		unsup("next on non-range")
	}
	okc := vc.fresh(f.id+x.Name()+".ok", "Bool")
	okTV := TV{T: okc, S: "Bool", Ty: types.Typ[types.Bool]}
	if x.IsString {
		s := f.val(rng.X)
		i := vc.fresh(f.id+x.Name()+".i", "Int")
		r := vc.fresh(f.id+x.Name()+".r", "Int")
		f.assume(st, fmt.Sprintf("(=> %s (and (<= 0 %s) (< %s (slen %s)) (<= 0 %s) (<= %s 1114111)))", okc, i, i, s.T, r, r))
		f.assume(st, fmt.Sprintf("(=> (= (slen %s) 0) (not %s))", s.T, okc))
		f.setVal(x, TV{Tuple: []TV{okTV, {T: i, S: "Int", Ty: types.Typ[types.Int]}, {T: r, S: "Int", Ty: types.Typ[types.Rune]}}})
		return
	}
	m := f.val(rng.X)
	t := rng.X.Type().Underlying().(*types.Map)
	ks, vs := f.sortOf(t.Key()), f.sortOf(t.Elem())
	k := f.havocValue(st, f.id+x.Name()+".k", t.Key())
	d := sel(sel(vc.comp(st, compMdom(ks, vs), "(Array Int (Array "+ks+" Bool))"), m.T), k.T)
	val := sel(sel(vc.comp(st, compMval(ks, vs), "(Array Int (Array "+ks+" "+vs+"))"), m.T), k.T)
	f.assume(st, implies(okc, and(d, not(eq(m.T, "0")))))
	if n, ok := f.visitedName[rng]; ok {
		// every key is produced at most once; when the iteration ends every
		// key still present has been produced (no insertion in the loop body)
		g := st.ghost[n]
		f.assume(st, implies(okc, not(sel(g.T, k.T))))
		if f.rangeExhaustive(rng) {
			drow := sel(vc.comp(st, compMdom(ks, vs), "(Array Int (Array "+ks+" Bool))"), m.T)
			q := vc.fresh("vq", "Bool")
			_ = q
			f.assume(st, implies(not(okc), fmt.Sprintf("(forall ((q %s)) (! (=> (select %s q) (select %s q)) :pattern ((select %s q))))", ks, drow, g.T, drow)))
		}
		g.T = vc.define("ghost."+n, g.S, ite(okc, sto(g.T, k.T, "true"), g.T))
		st.ghost[n] = g
	}
	v := TV{T: vc.define(f.id+x.Name()+".v", vs, val), S: vs, Ty: t.Elem()}
	f.assumeWf(st, okc, v)
	f.setVal(x, TV{Tuple: []TV{okTV, k, v}})
}

// initVisited declares one ghost set per map range loop of the top-level
// function (visited1, visited2, ... in source order).
func (f *frame) initVisited(st *bstate) {
	if !f.top || f.fn == nil {
		return
	}
	var rs []*ssa.Range
	for _, b := range f.fn.Blocks {
		for _, in := range b.Instrs {
			if r, ok := in.(*ssa.Range); ok {
				if _, isMap := r.X.Type().Underlying().(*types.Map); isMap {
					rs = append(rs, r)
				}
			}
		}
	}
	if len(rs) == 0 {
		return
	}
	sort.Slice(rs, func(i, j int) bool { return rs[i].Pos() < rs[j].Pos() })
	f.visitedName = map[*ssa.Range]string{}
	f.visitedKeySort = map[string]string{}
	for i, r := range rs {
		n := fmt.Sprintf("visited%d", i+1)
		ks := f.sortOf(r.X.Type().Underlying().(*types.Map).Key())
		f.visitedName[r] = n
		f.visitedKeySort[n] = ks
		st.ghost[n] = TV{T: "((as const (Array " + ks + " Bool)) false)", S: "(Array " + ks + " Bool)"}
	}
}

// rangeExhaustive: the loop over this map range neither inserts into a map of
// that type nor calls code that could (only builtins and pure callees).
func (f *frame) rangeExhaustive(rng *ssa.Range) bool {
	var hdr *ssa.BasicBlock
	for _, r := range *rng.Referrers() {
		if n, ok := r.(*ssa.Next); ok {
			hdr = n.Block()
		}
	}
	li := f.loops[hdr]
	if hdr == nil || li == nil {
		return false
	}
	mt := rng.X.Type().Underlying()
	for b := range li.body {
		for _, in := range b.Instrs {
			switch x := in.(type) {
			case *ssa.MapUpdate:
				if types.Identical(x.Map.Type().Underlying(), mt) {
					return false
				}
			case ssa.CallInstruction:
				if _, isB := x.Common().Value.(*ssa.Builtin); isB {
					continue
				}
				if fn := x.Common().StaticCallee(); fn != nil && fn.Blocks != nil && f.eng().inferPure(fn) {
					continue
				}
				if !f.isPureCallee(x.Common()) {
					return false
				}
			}
		}
	}
	return true
}

// simpleLiteral mirrors canInlineClosure (without the depth limit): such a
// deferred literal is always executed in place.
func simpleLiteral(fn *ssa.Function) bool {
	if fn.Blocks == nil || fn.Recover != nil {
		return false
	}
	n := 0
	for _, b := range fn.Blocks {
		for _, s := range b.Succs {
			if s.Dominates(b) {
				return false
			}
		}
		for _, in := range b.Instrs {
			n++
			switch in.(type) {
			case *ssa.Go, *ssa.Defer, *ssa.Select, *ssa.Send, *ssa.RunDefers, *ssa.MakeClosure:
				return false
			}
		}
	}
	// the literal must not let its captured cells escape either
	for _, fv := range fn.FreeVars {
		if allocEscapes(fv) {
			return false
		}
	}
	return n <= 80
}

// readOnlyCapture: the cell a is written exactly once in its function (its
// initialisation) and the closure u never writes the corresponding free
// variable nor lets its address escape: nobody can change the cell after it
// has been captured.
func readOnlyCapture(a ssa.Value, u *ssa.MakeClosure) bool {
	al, ok := a.(*ssa.Alloc)
	if !ok {
		return false
	}
	stores := 0
	if refs := al.Referrers(); refs != nil {
		for _, r := range *refs {
			if s, ok := r.(*ssa.Store); ok && s.Addr == ssa.Value(al) {
				stores++
			}
		}
	}
	if stores > 1 {
		return false
	}
	fn, ok := u.Fn.(*ssa.Function)
	if !ok || fn.Blocks == nil {
		return false
	}
	for i, b := range u.Bindings {
		if b != a {
			continue
		}
		fv := fn.FreeVars[i]
		refs := fv.Referrers()
		if refs == nil {
			return false
		}
		for _, r := range *refs {
			switch x := r.(type) {
			case *ssa.DebugRef:
			case *ssa.UnOp:
				if x.Op != token.MUL {
					return false
				}
			case *ssa.FieldAddr:
				// field reads only
				if frefs := x.Referrers(); frefs != nil {
					for _, fr := range *frefs {
						switch y := fr.(type) {
						case *ssa.DebugRef:
						case *ssa.UnOp:
							if y.Op != token.MUL {
								return false
							}
						default:
							return false
						}
					}
				}
			default:
				return false
			}
		}
	}
	return true
}

// escapeSites: the instructions through which the address of a (or an
// address derived from it) can first become visible to other code: every
// referrer that is not a plain load, a store INTO the object or an address
// computation. ok=false when referrers are unknown.
func escapeSites(a ssa.Value) (sites []ssa.Instruction, ok bool) {
	seen := map[ssa.Value]bool{}
	ok = true
	var walk func(v ssa.Value)
	walk = func(v ssa.Value) {
		if seen[v] {
			return
		}
		seen[v] = true
		refs := v.Referrers()
		if refs == nil {
			ok = false
			return
		}
		for _, r := range *refs {
			switch u := r.(type) {
			case *ssa.DebugRef:
			case *ssa.UnOp:
				if u.Op != token.MUL {
					sites = append(sites, r)
				}
			case *ssa.Store:
				if u.Val == v {
					sites = append(sites, r)
				}
			case *ssa.FieldAddr:
				walk(u)
			case *ssa.IndexAddr:
				walk(u)
			default:
				sites = append(sites, r)
			}
		}
	}
	walk(a)
	return sites, ok
}

func isPointerType(t types.Type) bool {
	_, ok := t.Underlying().(*types.Pointer)
	return ok
}

// isCancelChan: the channel is the result of Done() on a context, or the value
// of one of the fields listed in the function's cancellable clause.
func (f *frame) isCancelChan(v ssa.Value) bool {
	switch x := v.(type) {
	case *ssa.Call:
		c := x.Common()
		if c.IsInvoke() && c.Method.Name() == "Done" {
			if n, ok := c.Value.Type().(*types.Named); ok && n.Obj().Pkg() != nil && n.Obj().Pkg().Path() == "context" && n.Obj().Name() == "Context" {
				return true
			}
		}
	case *ssa.UnOp:
		if x.Op == token.MUL {
			if fa, ok := x.X.(*ssa.FieldAddr); ok {
				return f.cancelFieldName(fa.X.Type(), fa.Field)
			}
		}
	case *ssa.Field:
		return f.cancelFieldName(x.X.Type(), x.Field)
	case *ssa.ChangeType:
		return f.isCancelChan(x.X)
	case *ssa.Phi:
		for _, e := range x.Edges {
			if !f.isCancelChan(e) {
				return false
			}
		}
		return len(x.Edges) > 0
	}
	return false
}

func (f *frame) cancelFieldName(t types.Type, idx int) bool {
	if p, ok := t.Underlying().(*types.Pointer); ok {
		t = p.Elem()
	}
	st, ok := t.Underlying().(*types.Struct)
	if !ok || idx >= st.NumFields() {
		return false
	}
	for _, n := range f.cancelFields {
		if st.Field(idx).Name() == n {
			return true
		}
	}
	return false
}
