package vc

import (
	"fmt"
	"go/types"
	"strings"
)

// bindParams declares the parameters of a lemma/spec as constants (top-level
// proof) or as bound variables (axiom). Slices become (row, off, len) triples.
func (f *frame) bindParams(params []CVar, pkg *types.Package, bound bool, subst map[string]func(TV) TV) (map[string]TV, []string) {
	vc := f.vc
	vars := map[string]TV{}
	var binds []string
	mk := func(name, sort string) string {
		vc.nameCnt++
		if bound {
			n := q(fmt.Sprintf("%s!q%d", name, vc.nameCnt))
			binds = append(binds, "("+n+" "+sort+")")
			return n
		}
		return vc.fresh(name, sort)
	}
	for _, p := range params {
		pt := f.resolveType(p.Type, pkg)
		if sl, ok := pt.Underlying().(*types.Slice); ok {
			es := f.sortOf(sl.Elem())
			r, o, l := mk(p.Name+".row", arr1(es)), mk(p.Name+".off", "Int"), mk(p.Name+".len", "Int")
			vars[p.Name] = TV{S: "Seq", Ty: pt, Tuple: []TV{{T: r, S: arr1(es)}, {T: o, S: "Int"}, {T: l, S: "Int"}}}
			if !bound {
				vc.assert(fmt.Sprintf("(and (>= %s 0) (>= %s 0))", o, l))
			}
		} else {
			s := f.sortOf(pt)
			vars[p.Name] = TV{T: mk(p.Name, s), S: s, Ty: pt}
		}
	}
	return vars, binds
}

func (e *Engine) lemmaFrame(vc *VC) *frame {
	return &frame{vc: vc, vals: nil, callOrd: map[string]int{}}
}

// VerifyLemma generates the proof obligation(s) of a lemma.
func (e *Engine) VerifyLemma(li *lemmaInfo) (vc *VC) {
	vc = e.newVC(nil)
	vc.name = li.pkg.Path() + ".lemma:" + li.c.Name
	defer func() {
		if r := recover(); r != nil {
			switch x := r.(type) {
			case unsupported:
				vc.unsupp = string(x)
			case cerr:
				vc.unsupp = "contract error: " + string(x)
			default:
				panic(r)
			}
		}
	}()
	f := e.lemmaFrame(vc)
	f.namePfx = vc.name
	st := &bstate{alive: "true", heap: map[string]string{}, alloc: "1", ghost: map[string]TV{}}
	vars, _ := f.bindParams(li.c.Params, li.pkg, false, nil)
	env := &Env{f: f, vars: vars, st: st, pkg: li.pkg}
	var reqs []string
	for _, r := range li.c.Requires {
		reqs = append(reqs, f.transBool(r.Expr, env))
	}
	if li.c.Induct != "" {
		k, ok := vars[li.c.Induct]
		if !ok || k.S != "Int" {
			cfail("lemma %s: induction variable %s must be an int parameter", li.c.Name, li.c.Induct)
		}
		// induction hypothesis at k-1 (natural induction; requires must imply k >= 0)
		henv := env.with(li.c.Induct, TV{T: "(- " + k.T + " 1)", S: "Int", Ty: k.Ty})
		var hreq, hens []string
		for _, r := range li.c.Requires {
			hreq = append(hreq, f.transBool(r.Expr, henv))
		}
		for _, en := range li.c.Ensures {
			hens = append(hens, f.transBool(en.Expr, henv))
		}
		vc.assert(implies(and(hreq...), and(hens...)))
		st2 := st.clone()
		st2.alive = vc.define("pre", "Bool", and(reqs...))
		f.oblige(st2, "lemma", "induction variable is bounded below: "+li.c.Induct+" >= 0", "(>= "+k.T+" 0)", 0)
	}
	// other lemmas listed in `uses` are available as axioms
	for _, u := range li.c.Uses {
		for _, other := range e.lemmas {
			if other.c.Name == u && other.pkg == li.pkg {
				e.assertLemma(vc, f, other)
			}
		}
	}
	for _, en := range li.c.Ensures {
		st2 := st.clone()
		st2.alive = vc.define("pre", "Bool", and(reqs...))
		f.obligeClause(st2, "lemma", en.Text, f.transBool(en.Expr, env), en, 0)
	}
	vc.obls = append(vc.obls, &Obl{Name: vc.name + "/cover/requires", Kind: "cover", Guard: and(reqs...), Goal: "true", Cover: true, Func: vc.name})
	e.finishVC(vc, f)
	return vc
}

// assertLemma adds a (proved) lemma as a quantified axiom with its patterns.
func (e *Engine) assertLemma(vc *VC, f *frame, li *lemmaInfo) {
	key := "lemma:" + li.pkg.Path() + "." + li.c.Name
	if vc.funcsSeen[key] {
		return
	}
	vc.funcsSeen[key] = true
	vars, binds := f.bindParams(li.c.Params, li.pkg, true, nil)
	st := &bstate{alive: "true", heap: map[string]string{}, alloc: "1", ghost: map[string]TV{}}
	env := &Env{f: f, vars: vars, st: st, pkg: li.pkg}
	f.boundDepth++
	defer func() { f.boundDepth-- }()
	var reqs, ens, pats []string
	for _, r := range li.c.Requires {
		reqs = append(reqs, f.transBool(r.Expr, env))
	}
	for _, en := range li.c.Ensures {
		ens = append(ens, f.transBool(en.Expr, env))
	}
	for _, p := range li.c.Patterns {
		pats = append(pats, f.trans(p, env).T)
	}
	body := implies(and(reqs...), and(ens...))
	if len(pats) > 0 {
		body = "(! " + body + " :pattern (" + strings.Join(pats, " ") + "))"
	}
	vc.assert("(forall (" + strings.Join(binds, " ") + ") " + body + ")")
	vc.note("lemma used: " + li.pkg.Path() + "." + li.c.Name)
}

// lemmaAxioms adds every lemma whose pattern functions occur in the VC.
func (e *Engine) lemmaAxioms(vc *VC, f *frame) {
	if strings.Contains(vc.name, ".lemma:") {
		return
	}
	for _, li := range e.lemmas {
		if len(li.c.Patterns) == 0 {
			continue
		}
		use := true
		for _, p := range li.c.Patterns {
			c, ok := p.(*CCall)
			if !ok {
				continue
			}
			id, _ := c.Fun.(*CIdent)
			if id == nil || !vc.declSeen[q("spec:"+li.pkg.Path()+"."+id.Name)] {
				use = false
			}
		}
		if use {
			func() {
				defer func() {
					if r := recover(); r != nil {
						if _, ok := r.(cerr); ok {
							vc.unsupp = fmt.Sprintf("lemma %s: %v", li.c.Name, r)
							return
						}
						panic(r)
					}
				}()
				e.assertLemma(vc, f, li)
			}()
		}
	}
}
