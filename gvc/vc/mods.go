package vc

import (
	"go/types"
	"sort"
	"strings"

	"golang.org/x/tools/go/ssa"
)

// modSet: heap components possibly written inside a loop (or by a call),
// optionally restricted to the rows/refs of loop-invariant values.
type modEntry struct {
	sort string
	all  bool        // whole component
	refs []ssa.Value // pointwise: rows (slices: base of the slice value) or refs
	// nested sub-objects of these root objects are written (the exact cell is
	// not tracked): harmless when the root is allocated inside the loop
	subRoots []ssa.Value
}

type modSet struct {
	m    map[string]*modEntry
	star bool
}

func newModSet() *modSet { return &modSet{m: map[string]*modEntry{}} }

func (s *modSet) addAll(comp, sort string) {
	e := s.m[comp]
	if e == nil {
		e = &modEntry{sort: sort}
		s.m[comp] = e
	}
	e.all = true
}

func (s *modSet) addAt(comp, sort string, ref ssa.Value) {
	if ref == nil {
		s.addAll(comp, sort)
		return
	}
	e := s.m[comp]
	if e == nil {
		e = &modEntry{sort: sort}
		s.m[comp] = e
	}
	for _, r := range e.refs {
		if r == ref {
			return
		}
	}
	e.refs = append(e.refs, ref)
}

func (s *modSet) addSub(comp, sort string, root ssa.Value) {
	if root == nil {
		s.addAll(comp, sort)
		return
	}
	e := s.m[comp]
	if e == nil {
		e = &modEntry{sort: sort}
		s.m[comp] = e
	}
	for _, r := range e.subRoots {
		if r == root {
			return
		}
	}
	e.subRoots = append(e.subRoots, root)
}

func (s *modSet) keys() []string {
	var ks []string
	for k := range s.m {
		ks = append(ks, k)
	}
	sort.Strings(ks)
	return ks
}

// inferPure: a repo function is pure when its body writes nothing but its
// own non-escaping locals and calls only builtins and pure functions.
func (e *Engine) inferPure(fn *ssa.Function) bool {
	if v, ok := e.pureCache[fn]; ok {
		return v
	}
	e.pureCache[fn] = false // cycles are impure
	if fn.Blocks == nil {
		return false
	}
	res := true
	for _, b := range fn.Blocks {
		for _, in := range b.Instrs {
			switch x := in.(type) {
			case *ssa.Store:
				root := x.Addr
				for {
					switch a := root.(type) {
					case *ssa.FieldAddr:
						root = a.X
						continue
					case *ssa.IndexAddr:
						if _, isPtr := a.X.Type().Underlying().(interface{ Elem() interface{} }); isPtr {
						}
						root = a.X
						continue
					}
					break
				}
				if al, ok := root.(*ssa.Alloc); !ok || allocEscapes(al) {
					res = false
				}
			case *ssa.MapUpdate, *ssa.Go, *ssa.Send, *ssa.Select, *ssa.MakeClosure:
				res = false
			case *ssa.RunDefers:
				// the deferred calls themselves are judged where they are deferred
			case *ssa.UnOp:
				if x.Op.String() == "<-" {
					res = false
				}
			case ssa.CallInstruction:
				c := x.Common()
				if b, ok := c.Value.(*ssa.Builtin); ok {
					switch b.Name() {
					case "len", "cap", "min", "max":
					case "copy", "append":
						// writes through slices: only pure if the destination is a fresh local; be conservative
						res = false
					default:
						res = false
					}
					continue
				}
				callee := c.StaticCallee()
				if callee == nil {
					res = false
					continue
				}
				if fc := e.funcC[callee]; fc != nil && (fc.Pure) {
					continue
				}
				if fc := e.externs[callee.String()]; fc != nil && fc.Pure {
					continue
				}
				if callee.Pkg != nil && e.isRepoPkg(callee.Pkg.Pkg) {
					if !e.inferPure(callee) {
						res = false
					}
					continue
				}
				if callee.Pkg != nil && purePkgs[callee.Pkg.Pkg.Path()] && callee.Signature.Recv() == nil {
					continue
				}
				if pureFuncs[callee.String()] {
					continue
				}
				res = false
			}
		}
	}
	e.pureCache[fn] = res
	return res
}

// ---------------------------------------------------------------------------
// inferred write summaries (frames of calls without a contract)

type modSummary struct {
	top   bool
	comps map[string]string
}

// summary computes, syntactically and transitively, the heap components a repo
// function may write. Calls through interfaces or function values and calls
// into foreign code that may call back give "top".
func (e *Engine) summary(fn *ssa.Function) *modSummary {
	if s, ok := e.sumCache[fn]; ok {
		return s
	}
	s := &modSummary{top: true, comps: map[string]string{}}
	e.sumCache[fn] = s // recursion: top
	if fn.Blocks == nil {
		return s
	}
	if e.sumFrame == nil {
		vc := e.newVC(nil)
		e.sumFrame = &frame{vc: vc, vals: map[ssa.Value]TV{}, lvs: map[ssa.Value]*LV{}, callOrd: map[string]int{}}
	}
	f := e.sumFrame
	res := &modSummary{comps: map[string]string{}}
	ok := true
	func() {
		defer func() {
			if r := recover(); r != nil {
				if _, isU := r.(unsupported); isU {
					ok = false
					return
				}
				panic(r)
			}
		}()
		for _, b := range fn.Blocks {
			for _, in := range b.Instrs {
				switch x := in.(type) {
				case *ssa.Store:
					ms := newModSet()
					f.storeComps(x.Addr, ms)
					if ms.star {
						res.top = true
					}
					for c, me := range ms.m {
						local := !me.all && (len(me.refs) > 0 || len(me.subRoots) > 0)
						for _, r := range me.refs {
							al, isA := r.(*ssa.Alloc)
							if !isA || allocEscapes(al) {
								local = false
							}
						}
						// nested sub-objects of a local that never escapes are local too
						for _, r := range me.subRoots {
							al, isA := r.(*ssa.Alloc)
							if !isA || allocEscapes(al) {
								local = false
							}
						}
						if !local {
							res.comps[c] = me.sort
						}
					}
				case *ssa.MapUpdate:
					mt := x.Map.Type().Underlying().(*types.Map)
					k, v := f.sortOf(mt.Key()), f.sortOf(mt.Elem())
					res.comps[compMdom(k, v)] = "(Array Int (Array " + k + " Bool))"
					res.comps[compMval(k, v)] = "(Array Int (Array " + k + " " + v + "))"
				case *ssa.Go:
					res.top = true
				case ssa.CallInstruction:
					c := x.Common()
					if bi, isB := c.Value.(*ssa.Builtin); isB {
						switch bi.Name() {
						case "copy", "append":
							if sl, ok := c.Args[0].Type().Underlying().(*types.Slice); ok {
								es := f.sortOf(sl.Elem())
								res.comps[compMem(es)] = arr2(es)
							}
						case "delete":
							mt := c.Args[0].Type().Underlying().(*types.Map)
							k, v := f.sortOf(mt.Key()), f.sortOf(mt.Elem())
							res.comps[compMdom(k, v)] = "(Array Int (Array " + k + " Bool))"
						case "clear", "close":
							res.top = true
						}
						continue
					}
					callee := c.StaticCallee()
					if callee == nil {
						res.top = true
						continue
					}
					if fc := e.funcC[callee]; fc != nil && fc.Pure {
						continue
					}
					if fc := e.externs[callee.String()]; fc != nil {
						if fc.Pure {
							continue
						}
						if fc.HasModifies {
							// modifies lists of slices: x[*]
							okAll := true
							for _, mi := range fc.Modifies {
								if !strings.HasSuffix(mi, "[*]") {
									okAll = false
									continue
								}
								pname := strings.TrimSuffix(mi, "[*]")
								found := false
								for pi, p := range callee.Params {
									if p.Name() == pname && pi < len(c.Args) {
										if sl, isSl := p.Type().Underlying().(*types.Slice); isSl {
											es := f.sortOf(sl.Elem())
											res.comps[compMem(es)] = arr2(es)
											found = true
										}
									}
								}
								if !found {
									okAll = false
								}
							}
							if okAll {
								continue
							}
						}
					}
					if fc := e.funcC[callee]; fc != nil && fc.Kind == "func" && fc.HasModifies {
						// a repo callee with a declared frame: the declaration is used
						// (it is checked against that callee's own body, see
						// checkDeclaredFrame; this also closes recursion)
						if comps, ok := e.declaredFrameComps(callee, fc); ok {
							for k, v := range comps {
								res.comps[k] = v
							}
							continue
						}
					}
					if callee.Pkg != nil && e.isRepoPkg(callee.Pkg.Pkg) {
						cs := e.summary(callee)
						if cs.top {
							res.top = true
						}
						for k, v := range cs.comps {
							res.comps[k] = v
						}
						continue
					}
					if f.isPureCallee(c) {
						continue
					}
					if comps, closed := f.foreignFrame(c); closed {
						for k, v := range comps {
							res.comps[k] = v
						}
						continue
					}
					res.top = true
				}
			}
		}
	}()
	if !ok {
		res.top = true
	}
	e.sumCache[fn] = res
	return res
}

// closedType: values of this type cannot reach repo objects or code
// (no interfaces, functions, maps, channels, pointers to open types).
func closedType(t types.Type, depth int) bool {
	if depth > 6 {
		return false
	}
	switch u := t.Underlying().(type) {
	case *types.Basic:
		return u.Kind() != types.UnsafePointer
	case *types.Slice:
		return closedType(u.Elem(), depth+1)
	case *types.Array:
		return closedType(u.Elem(), depth+1)
	case *types.Pointer:
		return closedType(u.Elem(), depth+1)
	case *types.Struct:
		for i := 0; i < u.NumFields(); i++ {
			if !closedType(u.Field(i).Type(), depth+1) {
				return false
			}
		}
		return true
	}
	return false
}

// foreignFrame: a foreign function all of whose arguments are of closed types
// can only write memory reachable from them: the rows of slices and the
// pointees passed in.
func (f *frame) foreignFrame(c *ssa.CallCommon) (map[string]string, bool) {
	comps := map[string]string{}
	var add func(t types.Type, depth int)
	add = func(t types.Type, depth int) {
		if depth > 6 {
			return
		}
		switch u := t.Underlying().(type) {
		case *types.Slice:
			es := f.sortOf(u.Elem())
			comps[compMem(es)] = arr2(es)
			add(u.Elem(), depth+1)
		case *types.Pointer:
			for _, cell := range f.objCells(u.Elem(), "0") {
				comps[cell.comp] = cell.sort
			}
			add(u.Elem(), depth+1)
		case *types.Struct:
			for i := 0; i < u.NumFields(); i++ {
				add(u.Field(i).Type(), depth+1)
			}
		case *types.Array:
			add(u.Elem(), depth+1)
		}
	}
	for _, a := range c.Args {
		if !closedType(a.Type(), 0) {
			return nil, false
		}
		add(a.Type(), 0)
	}
	return comps, true
}

// havocComps havocs whole components, keeping non-escaping locals.
func (f *frame) havocComps(st *bstate, comps map[string]string) {
	vc := f.vc
	type keep struct {
		c   cellRef
		old string
	}
	var keeps []keep
	for fr := f; fr != nil; fr = fr.caller {
		for _, la := range fr.locals {
			if !la.isPrivate(st) {
				continue
			}
			for _, c := range f.objCells(la.ty, la.ref.T) {
				if _, hit := comps[c.comp]; hit {
					keeps = append(keeps, keep{c, sel(vc.comp(st, c.comp, c.sort), c.ref)})
				}
			}
		}
	}
	var ks []string
	for k := range comps {
		ks = append(ks, k)
	}
	sort.Strings(ks)
	for _, k := range ks {
		vc.comps[k] = comps[k]
		st.heap[k] = vc.fresh(k+"@call", comps[k])
	}
	for _, k := range keeps {
		vc.assert(eq(sel(vc.comp(st, k.c.comp, k.c.sort), k.c.ref), k.old))
	}
	if len(comps) > 0 {
		f.reassumeParamInvs(st)
	}
}

// declaredFrameComps: the heap components a `modifies` clause of a repository
// function allows it to write: nothing, the pointee of a pointer parameter
// (`modifies p`), or the elements of a slice parameter (`modifies s[*]`).
func (e *Engine) declaredFrameComps(fn *ssa.Function, fc *FuncC) (map[string]string, bool) {
	if e.sumFrame == nil {
		vc := e.newVC(nil)
		e.sumFrame = &frame{vc: vc, vals: map[ssa.Value]TV{}, lvs: map[ssa.Value]*LV{}, callOrd: map[string]int{}}
	}
	f := e.sumFrame
	out := map[string]string{}
	for _, m := range fc.Modifies {
		m = strings.TrimSpace(m)
		if m == "" || m == "nothing" {
			continue
		}
		name := strings.TrimSuffix(m, "[*]")
		var prm *ssa.Parameter
		for _, p := range fn.Params {
			if p.Name() == name {
				prm = p
			}
		}
		if prm == nil {
			return nil, false
		}
		if strings.HasSuffix(m, "[*]") {
			sl, ok := prm.Type().Underlying().(*types.Slice)
			if !ok {
				return nil, false
			}
			es := f.sortOf(sl.Elem())
			out[compMem(es)] = arr2(es)
			continue
		}
		if _, ok := prm.Type().Underlying().(*types.Pointer); !ok {
			return nil, false
		}
		ms := newModSet()
		okStore := true
		func() {
			defer func() {
				if r := recover(); r != nil {
					okStore = false
				}
			}()
			f.storeComps(prm, ms)
		}()
		if !okStore || ms.star {
			return nil, false
		}
		for c, me := range ms.m {
			out[c] = me.sort
		}
	}
	return out, true
}

// checkDeclaredFrame compares what the body of a repository function with a
// `modifies` clause may write (syntactic, transitive summary) with what the
// clause allows. The comparison is by heap component (type and field), not by
// object: `modifies p` allows writes to the fields of p's pointee type.
func (e *Engine) checkDeclaredFrame(fn *ssa.Function, fc *FuncC) (ok bool, why string) {
	allowed, okDecl := e.declaredFrameComps(fn, fc)
	if !okDecl {
		return false, "the modifies clause names something other than a pointer parameter, a slice parameter's elements or nothing"
	}
	// the function's own summary: its body is analysed; declared frames are used
	// only at calls (recursive calls to itself included)
	s := e.summary(fn)
	if s.top {
		return false, "the body's writes cannot be bounded (dynamic call, goroutine or foreign call that may write anything)"
	}
	var extra []string
	for c := range s.comps {
		if _, ok := allowed[c]; !ok {
			extra = append(extra, c)
		}
	}
	if len(extra) > 0 {
		sort.Strings(extra)
		return false, "the body may write " + strings.Join(extra, ", ")
	}
	return true, ""
}
