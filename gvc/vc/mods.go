package vc

import (
	"sort"

	"golang.org/x/tools/go/ssa"
)

// modSet: heap components possibly written inside a loop (or by a call),
// optionally restricted to the rows/refs of loop-invariant values.
type modEntry struct {
	sort string
	all  bool        // whole component
	refs []ssa.Value // pointwise: rows (slices: base of the slice value) or refs
}

type modSet struct {
	m    map[string]*modEntry
	star bool
}

func newModSet() *modSet { return &modSet{m: map[string]*modEntry{}} }

func (s *modSet) addAll(comp, sort string) {
	e := s.m[comp]
	if e == nil {
		e = &modEntry{sort: sort}
		s.m[comp] = e
	}
	e.all = true
}

func (s *modSet) addAt(comp, sort string, ref ssa.Value) {
	if ref == nil {
		s.addAll(comp, sort)
		return
	}
	e := s.m[comp]
	if e == nil {
		e = &modEntry{sort: sort}
		s.m[comp] = e
	}
	for _, r := range e.refs {
		if r == ref {
			return
		}
	}
	e.refs = append(e.refs, ref)
}

func (s *modSet) keys() []string {
	var ks []string
	for k := range s.m {
		ks = append(ks, k)
	}
	sort.Strings(ks)
	return ks
}

// inferPure: a repo function is pure when its body writes nothing but its
// own non-escaping locals and calls only builtins and pure functions.
func (e *Engine) inferPure(fn *ssa.Function) bool {
	if v, ok := e.pureCache[fn]; ok {
		return v
	}
	e.pureCache[fn] = false // cycles are impure
	if fn.Blocks == nil {
		return false
	}
	res := true
	for _, b := range fn.Blocks {
		for _, in := range b.Instrs {
			switch x := in.(type) {
			case *ssa.Store:
				root := x.Addr
				for {
					switch a := root.(type) {
					case *ssa.FieldAddr:
						root = a.X
						continue
					case *ssa.IndexAddr:
						if _, isPtr := a.X.Type().Underlying().(interface{ Elem() interface{} }); isPtr {
						}
						root = a.X
						continue
					}
					break
				}
				if al, ok := root.(*ssa.Alloc); !ok || allocEscapes(al) {
					res = false
				}
			case *ssa.MapUpdate, *ssa.Go, *ssa.Send, *ssa.Select, *ssa.Defer, *ssa.RunDefers, *ssa.MakeClosure:
				res = false
			case *ssa.UnOp:
				if x.Op.String() == "<-" {
					res = false
				}
			case ssa.CallInstruction:
				c := x.Common()
				if b, ok := c.Value.(*ssa.Builtin); ok {
					switch b.Name() {
					case "len", "cap", "min", "max":
					case "copy", "append":
						// writes through slices: only pure if the destination is a fresh local; be conservative
						res = false
					default:
						res = false
					}
					continue
				}
				callee := c.StaticCallee()
				if callee == nil {
					res = false
					continue
				}
				if fc := e.funcC[callee]; fc != nil && (fc.Pure) {
					continue
				}
				if fc := e.externs[callee.String()]; fc != nil && fc.Pure {
					continue
				}
				if callee.Pkg != nil && e.isRepoPkg(callee.Pkg.Pkg) {
					if !e.inferPure(callee) {
						res = false
					}
					continue
				}
				if callee.Pkg != nil && purePkgs[callee.Pkg.Pkg.Path()] && callee.Signature.Recv() == nil {
					continue
				}
				if pureFuncs[callee.String()] {
					continue
				}
				res = false
			}
		}
	}
	e.pureCache[fn] = res
	return res
}
