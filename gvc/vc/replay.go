package vc

// Leaf replay: turn a solver model into an in-package Go test that calls the
// real function with the model's inputs, observes a panic or dumps the
// results, and (for postconditions) evaluates the failed clause on the
// concrete values with the contract interpreter (ceval.go).

import (
	"context"
	"encoding/json"
	"fmt"
	"go/types"
	"os"
	"os/exec"
	"path/filepath"
	"regexp"
	"strings"
	"time"

	"golang.org/x/tools/go/ssa"
)

const replayMaxLen = 40

type mvTerm struct {
	key  string // e.g. "src.len", "src[3]"
	term string
}

// modelTerms lists the SMT terms whose values describe the inputs.
func (e *Engine) modelTerms(v *VC, f *frame, name, term string, ty types.Type, out *[]mvTerm, ok *bool) {
	switch u := ty.Underlying().(type) {
	case *types.Basic:
		switch {
		case u.Kind() == types.String:
			*out = append(*out, mvTerm{name + ".len", "(slen " + term + ")"})
			for i := 0; i < replayMaxLen; i++ {
				*out = append(*out, mvTerm{fmt.Sprintf("%s[%d]", name, i), fmt.Sprintf("(sbyte %s %d)", term, i)})
			}
		case u.Info()&(types.IsInteger|types.IsBoolean) != 0:
			*out = append(*out, mvTerm{name, term})
		default:
			*ok = false
		}
	case *types.Slice:
		es := v.sr.sortOf(u.Elem())
		if !isBV(es) && es != "Int" {
			*ok = false
			return
		}
		mem := q(compMem(es) + "@e0")
		if !v.declSeen[mem] {
			v.declare(compMem(es)+"@e0", arr2(es))
		}
		*out = append(*out, mvTerm{name + ".len", "(s_len " + term + ")"}, mvTerm{name + ".cap", "(s_cap " + term + ")"}, mvTerm{name + ".nil", "(= (s_base " + term + ") 0)"})
		for i := 0; i < replayMaxLen; i++ {
			*out = append(*out, mvTerm{fmt.Sprintf("%s[%d]", name, i), fmt.Sprintf("(select (select %s (s_base %s)) (+ (s_off %s) %d))", mem, term, term, i)})
		}
	case *types.Struct:
		si := v.sr.structSort(ty)
		for i := 0; i < u.NumFields(); i++ {
			e.modelTerms(v, f, name+"."+u.Field(i).Name(), "("+si.fields[i]+" "+term+")", u.Field(i).Type(), out, ok)
		}
	default:
		*ok = false
	}
}

var valRe = regexp.MustCompile(`^\(\s*(.*)\s+(#x[0-9a-fA-F]+|#b[01]+|\(- [0-9]+\)|[0-9]+|true|false)\)$`)

func parseSMTInt(s string) (int64, bool) {
	s = strings.TrimSpace(s)
	switch {
	case strings.HasPrefix(s, "#x"):
		var n uint64
		fmt.Sscanf(s[2:], "%x", &n)
		return int64(n), true
	case strings.HasPrefix(s, "#b"):
		var n int64
		for _, c := range s[2:] {
			n = n*2 + int64(c-'0')
		}
		return n, true
	case s == "true":
		return 1, true
	case s == "false":
		return 0, true
	}
	return parseIntLit(s)
}

// solveForValues re-solves the failing obligation with size bounds and
// returns the values of the input terms.
func (e *Engine) solveForValues(v *VC, o *Obl, terms []mvTerm, bound bool) (map[string]int64, string) {
	var b strings.Builder
	b.WriteString(v.smtBody())
	b.WriteString(oblQuery(o) + "\n")
	if bound {
		for _, t := range terms {
			if strings.HasSuffix(t.key, ".len") || strings.HasSuffix(t.key, ".cap") {
				fmt.Fprintf(&b, "(assert (<= %s %d))\n", t.term, replayMaxLen-8)
			} else if !strings.Contains(t.key, "[") && !strings.HasSuffix(t.key, ".nil") {
				// scalar
				if strings.HasPrefix(t.term, "|") {
					fmt.Fprintf(&b, "(assert (=> true true))\n")
				}
			}
		}
	}
	b.WriteString("(check-sat)\n(get-value (")
	for _, t := range terms {
		b.WriteString(t.term + " ")
	}
	b.WriteString("))\n")
	dir, _ := os.MkdirTemp("", "gvc-replay-")
	defer os.RemoveAll(dir)
	file := filepath.Join(dir, "model.smt2")
	os.WriteFile(file, []byte(b.String()), 0o644)
	for _, sd := range []solverDef{solvers[0], solvers[1]} {
		out, _ := runSolver(context.Background(), sd, 20000, file, 30000)
		if firstAnswer(out) != "sat" {
			continue
		}
		// parse "((term value)\n (term value) ...)": values come in order
		vals := map[string]int64{}
		rest := out[strings.Index(out, "sat")+3:]
		toks := splitValuePairs(rest)
		if len(toks) != len(terms) {
			continue
		}
		okAll := true
		for i, t := range terms {
			n, ok := parseSMTInt(toks[i])
			if !ok {
				okAll = false
				break
			}
			vals[t.key] = n
		}
		if okAll {
			return vals, sd.name
		}
	}
	return nil, ""
}

// splitValuePairs extracts the value part of each (term value) pair of a
// get-value answer, in order.
func splitValuePairs(s string) []string {
	s = strings.TrimSpace(s)
	// strip outer parens
	i := strings.Index(s, "(")
	if i < 0 {
		return nil
	}
	s = s[i+1:]
	var out []string
	depth := 0
	start := -1
	inq := false
	for p := 0; p < len(s); p++ {
		c := s[p]
		if c == '|' {
			inq = !inq
			continue
		}
		if inq {
			continue
		}
		if c == '(' {
			if depth == 0 {
				start = p
			}
			depth++
		} else if c == ')' {
			depth--
			if depth == 0 && start >= 0 {
				pair := s[start+1 : p]
				out = append(out, lastSexp(pair))
				start = -1
			}
			if depth < 0 {
				break
			}
		}
	}
	return out
}

// lastSexp returns the last s-expression (or atom) of a string.
func lastSexp(s string) string {
	s = strings.TrimSpace(s)
	if strings.HasSuffix(s, ")") {
		d := 0
		for p := len(s) - 1; p >= 0; p-- {
			if s[p] == ')' {
				d++
			} else if s[p] == '(' {
				d--
				if d == 0 {
					return s[p:]
				}
			}
		}
	}
	if i := strings.LastIndexAny(s, " \t\n"); i >= 0 {
		return s[i+1:]
	}
	return s
}

// goValue renders a model value of the given type as a Go expression.
func goValue(name string, ty types.Type, vals map[string]int64, qual types.Qualifier, ok *bool) string {
	switch u := ty.Underlying().(type) {
	case *types.Basic:
		switch {
		case u.Kind() == types.String:
			n := vals[name+".len"]
			if n > replayMaxLen {
				*ok = false
				return `""`
			}
			bs := make([]byte, n)
			for i := range bs {
				bs[i] = byte(vals[fmt.Sprintf("%s[%d]", name, i)])
			}
			return fmt.Sprintf("%s(%q)", types.TypeString(ty, qual), string(bs))
		case u.Info()&types.IsBoolean != 0:
			if vals[name] != 0 {
				return "true"
			}
			return "false"
		default:
			return fmt.Sprintf("%s(%d)", types.TypeString(ty, qual), vals[name])
		}
	case *types.Slice:
		n, c := vals[name+".len"], vals[name+".cap"]
		if n > replayMaxLen || c > 1<<16 {
			*ok = false
			return "nil"
		}
		if vals[name+".nil"] != 0 && n == 0 {
			return fmt.Sprintf("%s(nil)", types.TypeString(ty, qual))
		}
		var el []string
		for i := int64(0); i < n; i++ {
			el = append(el, fmt.Sprint(vals[fmt.Sprintf("%s[%d]", name, i)]))
		}
		return fmt.Sprintf("append(make(%s, 0, %d), %s{%s}...)", types.TypeString(ty, qual), c, types.TypeString(ty, qual), strings.Join(el, ", "))
	case *types.Struct:
		var fs []string
		for i := 0; i < u.NumFields(); i++ {
			fs = append(fs, u.Field(i).Name()+": "+goValue(name+"."+u.Field(i).Name(), u.Field(i).Type(), vals, qual, ok))
		}
		return types.TypeString(ty, qual) + "{" + strings.Join(fs, ", ") + "}"
	}
	*ok = false
	return "nil"
}

// leafReplay implements the replay for functions whose parameters are
// scalars, strings, byte slices and structs of those.
func (e *Engine) leafReplay(v *VC, o *Obl) (string, bool) {
	fn := v.fn
	if fn == nil || fn.Pkg == nil {
		return "replay: not a function obligation\n", false
	}
	if strings.Contains(o.Name, "/in:") {
		// obligations inside inlined callees replay through the caller as well
	}
	f := &frame{vc: v}
	var terms []mvTerm
	ok := true
	for i, p := range fn.Params {
		if i >= len(v.inputs) {
			return "replay: inputs not recorded\n", false
		}
		e.modelTerms(v, f, p.Name(), v.inputs[i], p.Type(), &terms, &ok)
	}
	if !ok {
		return "replay: parameter types are outside the leaf adapter (pointers, interfaces, maps); no replay adapter for this function\n", false
	}
	vals, solver := e.solveForValues(v, o, terms, true)
	if vals == nil {
		vals, solver = e.solveForValues(v, o, terms, false)
	}
	if vals == nil {
		return "replay: could not obtain a bounded model for the inputs\n", false
	}
	pkg := fn.Pkg.Pkg
	qual := func(p *types.Package) string {
		if p == pkg {
			return ""
		}
		return p.Name()
	}
	var b strings.Builder
	imports := map[string]bool{"testing": true, "fmt": true, "encoding/json": true, "os": true}
	fmt.Fprintf(&b, "func TestGvcReplay(t *testing.T) {\n")
	var argNames []string
	gok := true
	for _, p := range fn.Params {
		gv := goValue(p.Name(), p.Type(), vals, qual, &gok)
		fmt.Fprintf(&b, "\tvar in_%s %s = %s\n", p.Name(), types.TypeString(p.Type(), qual), gv)
		argNames = append(argNames, "in_"+p.Name())
		collectImports(p.Type(), pkg, imports)
	}
	if !gok {
		return "replay: model values too large to materialise\n", false
	}
	// snapshot inputs (for old())
	fmt.Fprintf(&b, "\tdump := map[string]interface{}{}\n")
	for _, p := range fn.Params {
		fmt.Fprintf(&b, "\tdump[\"old.%s\"] = gvcDump(in_%s)\n", p.Name(), p.Name())
	}
	fmt.Fprintf(&b, "\tdefer func() {\n\t\tif r := recover(); r != nil {\n\t\t\tdump[\"panic\"] = fmt.Sprint(r)\n\t\t}\n\t\tout, _ := json.Marshal(dump)\n\t\tos.Stdout.WriteString(\"GVCDUMP \" + string(out) + \"\\n\")\n\t}()\n")
	call := ""
	sig := fn.Signature
	if sig.Recv() != nil {
		call = fmt.Sprintf("in_%s.%s(%s)", fn.Params[0].Name(), fn.Name(), strings.Join(argNames[1:], ", "))
	} else {
		call = fmt.Sprintf("%s(%s)", fn.Name(), strings.Join(argNames, ", "))
	}
	nres := sig.Results().Len()
	if nres > 0 {
		var rs []string
		for i := 0; i < nres; i++ {
			rs = append(rs, fmt.Sprintf("r%d", i))
		}
		fmt.Fprintf(&b, "\t%s := %s\n", strings.Join(rs, ", "), call)
		for i := 0; i < nres; i++ {
			fmt.Fprintf(&b, "\tdump[\"result%d\"] = gvcDump(r%d)\n", i, i)
		}
	} else {
		fmt.Fprintf(&b, "\t%s\n", call)
	}
	for _, p := range fn.Params {
		fmt.Fprintf(&b, "\tdump[\"%s\"] = gvcDump(in_%s)\n", p.Name(), p.Name())
	}
	fmt.Fprintf(&b, "}\n\n")
	// error identities mentioned in the contract
	var errVars []string
	if fc := e.funcC[fn]; fc != nil {
		errVars = errorVarsIn(fc)
		for _, ev := range errVars {
			if i := strings.Index(ev, "."); i >= 0 {
				if p := e.byName[ev[:i]]; p != nil {
					imports[p.Path()] = true
				}
			}
		}
	}
	fmt.Fprintf(&b, "func gvcDump(v interface{}) interface{} {\n\tswitch x := v.(type) {\n\tcase []byte:\n\t\tl := make([]int, len(x))\n\t\tfor i, c := range x {\n\t\t\tl[i] = int(c)\n\t\t}\n\t\treturn map[string]interface{}{\"bytes\": l, \"cap\": cap(x), \"nil\": x == nil}\n\tcase error:\n")
	for _, ev := range errVars {
		fmt.Fprintf(&b, "\t\tif x == %s {\n\t\t\treturn map[string]interface{}{\"error\": %q}\n\t\t}\n", ev, ev)
	}
	fmt.Fprintf(&b, "\t\treturn map[string]interface{}{\"error\": \"other: \" + x.Error()}\n\tcase nil:\n\t\treturn nil\n\tcase fmt.Stringer:\n\t\treturn map[string]interface{}{\"string\": x.String(), \"repr\": fmt.Sprintf(\"%%#v\", v)}\n\t}\n\treturn v\n}\n")
	var src strings.Builder
	fmt.Fprintf(&src, "package %s\n\nimport (\n", pkg.Name())
	for _, im := range sortedKeys(imports) {
		fmt.Fprintf(&src, "\t%q\n", im)
	}
	fmt.Fprintf(&src, ")\n\n%s", b.String())

	// run it through an overlay
	dir, _ := os.MkdirTemp("", "gvc-replay-")
	defer os.RemoveAll(dir)
	testFile := filepath.Join(dir, "zz_gvc_replay_test.go")
	os.WriteFile(testFile, []byte(src.String()), 0o644)
	pkgDir := ""
	for _, p := range e.AllRepoPkgs {
		if p.Types == pkg && len(p.GoFiles) > 0 {
			pkgDir = filepath.Dir(p.GoFiles[0])
		}
	}
	if pkgDir == "" {
		return "replay: package directory not found\n", false
	}
	ov := map[string]interface{}{"Replace": map[string]string{filepath.Join(pkgDir, "zz_gvc_replay_test.go"): testFile}}
	ovData, _ := json.Marshal(ov)
	ovFile := filepath.Join(dir, "overlay.json")
	os.WriteFile(ovFile, ovData, 0o644)
	ctx, cancel := context.WithTimeout(context.Background(), 120*time.Second)
	defer cancel()
	cmd := exec.CommandContext(ctx, "go", "test", "-overlay", ovFile, "-vet=off", "-count=1", "-v", "-timeout", "60s", "-run", "^TestGvcReplay$", ".")
	cmd.Dir = pkgDir
	cmd.Env = append(os.Environ(), "GOFLAGS=-mod=mod", "GOPROXY=off", "GOSUMDB=off", "GOTOOLCHAIN=local")
	outB, _ := cmd.CombinedOutput()
	out := string(outB)
	var rep strings.Builder
	fmt.Fprintf(&rep, "replay (leaf adapter, model from %s): real function called with the verifier's inputs\n", solver)
	for _, p := range fn.Params {
		ok2 := true
		fmt.Fprintf(&rep, "  %s = %s\n", p.Name(), goValue(p.Name(), p.Type(), vals, qual, &ok2))
	}
	fmt.Fprintf(&rep, "command: cd %s && go test -overlay <overlay mapping zz_gvc_replay_test.go> -vet=off -count=1 -timeout 60s -run '^TestGvcReplay$' .\n", pkgDir)
	fmt.Fprintf(&rep, "--- generated test ---\n%s--- output ---\n%s\n", src.String(), truncate(out, 4000))
	// interpret
	var dump map[string]interface{}
	for _, l := range strings.Split(out, "\n") {
		if strings.HasPrefix(l, "GVCDUMP ") {
			json.Unmarshal([]byte(strings.TrimPrefix(l, "GVCDUMP ")), &dump)
		}
	}
	if dump == nil {
		rep.WriteString("NOT-REPRODUCED: the replay test produced no result dump\n")
		return rep.String(), false
	}
	if p, ok := dump["panic"]; ok {
		if o.Clause == nil || true {
			fmt.Fprintf(&rep, "REPRODUCED: the real code panics: %v\n", p)
			return rep.String(), true
		}
	}
	if o.Clause == nil {
		rep.WriteString("NOT-REPRODUCED: the predicted run-time failure did not happen on the real code\n")
		return rep.String(), false
	}
	if o.Kind != "post" {
		rep.WriteString("NOT-REPRODUCED: only postconditions and panics are evaluated by the leaf adapter\n")
		return rep.String(), false
	}
	holds, err := e.evalClause(fn, o.Clause, dump)
	if err != nil {
		fmt.Fprintf(&rep, "NOT-REPRODUCED: clause could not be evaluated on concrete values: %v\n", err)
		return rep.String(), false
	}
	if !holds {
		fmt.Fprintf(&rep, "REPRODUCED: clause `%s` is false for the values returned by the real code\n", o.Clause.Text)
		return rep.String(), true
	}
	rep.WriteString("NOT-REPRODUCED: the clause holds on the real code for the verifier's inputs (the model runs through a havocked loop/call)\n")
	return rep.String(), false
}

func truncate(s string, n int) string {
	if len(s) > n {
		return s[:n] + "\n…(truncated)"
	}
	return s
}

func collectImports(t types.Type, self *types.Package, imports map[string]bool) {
	switch u := t.(type) {
	case *types.Named:
		if p := u.Obj().Pkg(); p != nil && p != self {
			imports[p.Path()] = true
		}
	case *types.Slice:
		collectImports(u.Elem(), self, imports)
	case *types.Pointer:
		collectImports(u.Elem(), self, imports)
	}
}

// errorVarsIn: qualified identifiers in a contract that look like error variables
func errorVarsIn(fc *FuncC) []string {
	seen := map[string]bool{}
	var walk func(CE)
	walk = func(e CE) {
		switch n := e.(type) {
		case *CSel:
			if id, ok := n.X.(*CIdent); ok && (strings.HasPrefix(n.Sel, "Err") || n.Sel == "EOF") {
				seen[id.Name+"."+n.Sel] = true
			}
			walk(n.X)
		case *CBin:
			walk(n.L)
			walk(n.R)
		case *CUn:
			walk(n.X)
		case *CCall:
			for _, a := range n.Args {
				walk(a)
			}
		case *CQuant:
			walk(n.Body)
		case *CIndex:
			walk(n.X)
			walk(n.I)
		}
	}
	for _, c := range fc.Ensures {
		walk(c.Expr)
	}
	return sortedKeys(seen)
}

var _ = ssa.Function{}

// adapterReplay runs a hand-written scenario adapter (a Go test kept under
// /verif/adapters and injected by overlay) registered for this obligation.
type adapterEntry struct{ Match, Dir, File, Test string }

func loadAdapters(verifDir string) ([]adapterEntry, string) {
	data, err := os.ReadFile(filepath.Join(verifDir, "adapters", "index.json"))
	if err != nil {
		data, err = os.ReadFile("/verif/adapters/index.json")
		if err != nil {
			return nil, verifDir
		}
		verifDir = "/verif"
	}
	var entries []adapterEntry
	if json.Unmarshal(data, &entries) != nil {
		return nil, verifDir
	}
	return entries, verifDir
}

// runAdapter injects the scenario test into the package by overlay and runs it
// against the real code; reproduced means the test printed a REPRODUCED line.
func (e *Engine) runAdapter(verifDir string, en adapterEntry) (string, bool) {
	dir, _ := os.MkdirTemp("", "gvc-adapter-")
	defer os.RemoveAll(dir)
	pkgDir := filepath.Join(e.opts.RepoDir, en.Dir)
	ov := map[string]interface{}{"Replace": map[string]string{filepath.Join(pkgDir, "zz_gvc_adapter_test.go"): filepath.Join(verifDir, "adapters", en.File)}}
	ovData, _ := json.Marshal(ov)
	ovFile := filepath.Join(dir, "overlay.json")
	os.WriteFile(ovFile, ovData, 0o644)
	ctx, cancel := context.WithTimeout(context.Background(), 150*time.Second)
	defer cancel()
	cmd := exec.CommandContext(ctx, "go", "test", "-overlay", ovFile, "-vet=off", "-count=1", "-v", "-timeout", "60s", "-run", "^"+en.Test+"$", ".")
	cmd.Dir = pkgDir
	cmd.Env = append(os.Environ(), "GOFLAGS=-mod=mod", "GOPROXY=off", "GOSUMDB=off", "GOTOOLCHAIN=local")
	outB, _ := cmd.CombinedOutput()
	out := string(outB)
	rep := fmt.Sprintf("replay (scenario adapter %s/%s): cd %s && go test -overlay <zz_gvc_adapter_test.go -> %s> -vet=off -count=1 -timeout 60s -run '^%s$' .\n--- output ---\n%s\n",
		en.File, en.Test, pkgDir, filepath.Join(verifDir, "adapters", en.File), en.Test, truncate(out, 3000))
	for _, l := range strings.Split(out, "\n") {
		if strings.HasPrefix(l, "REPRODUCED ") {
			return rep + l + "\n", true
		}
	}
	return rep + "NOT-REPRODUCED by the adapter\n", false
}

func (e *Engine) adapterReplay(verifDir string, o *Obl) (string, bool) {
	entries, vd := loadAdapters(verifDir)
	for _, en := range entries {
		if strings.Contains(o.Name, en.Match) {
			return e.runAdapter(vd, en)
		}
	}
	return "", false
}
