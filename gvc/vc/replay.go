package vc

// leafReplay: turn a solver model into an in-package Go test that calls the
// real function with the model's inputs (implemented in replaygen.go).
func (e *Engine) leafReplay(v *VC, o *Obl) (string, bool) {
	return "replay: no adapter for this function yet\n", false
}
