package vc

import (
	"fmt"
	"go/token"
	"go/types"
	"os"
	"strings"

	"golang.org/x/tools/go/ssa"
)

// run symbolically executes the function from the given entry state.
func (f *frame) run(entry *bstate, args []TV) {
	fn := f.fn
	if fn.Blocks == nil {
		unsup("function %s has no body", fn)
	}
	f.initSrcText()
	loops, back := findLoops(fn)
	f.loops = loops
	order, ok := topoOrder(fn, back)
	if !ok {
		unsup("irreducible control flow in %s", fn)
	}
	f.out = map[*ssa.BasicBlock]*bstate{}
	f.edge = map[[2]int]string{}
	f.entry = entry.clone()
	f.params = map[string]TV{}
	for i, p := range fn.Params {
		f.setVal(p, args[i])
		f.params[p.Name()] = f.vals[p]
	}
	if len(fn.FreeVars) > 0 {
		for _, fv := range fn.FreeVars {
			tv, bound := f.fvBind[fv]
			if !bound {
				// captured variables are pointers to cells owned by the enclosing function
				tv = f.havocValue(entry, f.id+"fv."+fv.Name(), fv.Type())
			}
			f.setVal(fv, tv)
			f.params[fv.Name()] = tv
			if pt, ok := fv.Type().Underlying().(*types.Pointer); ok && (!bound || f.top) {
				// the contract name denotes the captured variable's value at entry
				f.vc.assert("(> " + tv.T + " 0)")
				lv := f.lvOfRef(tv.T, pt.Elem())
				val := f.load(entry, lv)
				val.T = f.vc.define(f.id+"fvval."+fv.Name(), val.S, val.T)
				f.loadFacts(entry, val)
				f.params[fv.Name()] = val
			}
		}
	}
	for _, b := range order {
		f.block(b, entry, back)
	}
}

// slotOf returns the index in p.Succs corresponding to the k-th occurrence of b.
func succSlot(p, b *ssa.BasicBlock, k int) int {
	n := 0
	for i, s := range p.Succs {
		if s == b {
			if n == k {
				return i
			}
			n++
		}
	}
	return -1
}

type inEdge struct {
	pred *ssa.BasicBlock
	pidx int // index in b.Preds
	cond string
	st   *bstate
}

func (f *frame) inEdges(b *ssa.BasicBlock, back map[[2]*ssa.BasicBlock]bool, wantBack bool) []inEdge {
	var out []inEdge
	occ := map[*ssa.BasicBlock]int{}
	for i, p := range b.Preds {
		k := occ[p]
		occ[p]++
		isBack := back[[2]*ssa.BasicBlock{p, b}]
		if isBack != wantBack {
			continue
		}
		st := f.out[p]
		if st == nil {
			continue // unreachable predecessor
		}
		slot := succSlot(p, b, k)
		c, ok := f.edge[[2]int{p.Index, slot}]
		if !ok {
			continue
		}
		out = append(out, inEdge{p, i, c, st})
	}
	return out
}

func (f *frame) mergeStates(b *ssa.BasicBlock, ins []inEdge) *bstate {
	vc := f.vc
	if len(ins) == 1 {
		st := ins[0].st.clone()
		st.alive = vc.define(fmt.Sprintf("%sr%d", f.id, b.Index), "Bool", ins[0].cond)
		return st
	}
	var conds []string
	for _, e := range ins {
		conds = append(conds, e.cond)
	}
	st := &bstate{heap: map[string]string{}, ghost: map[string]TV{}, leaked: map[string]bool{}}
	for _, e := range ins {
		for k := range e.st.leaked {
			st.leaked[k] = true
		}
	}
	st.alive = vc.define(fmt.Sprintf("%sr%d", f.id, b.Index), "Bool", or(conds...))
	// epoch
	same := true
	for _, e := range ins[1:] {
		if e.st.epoch != ins[0].st.epoch {
			same = false
		}
	}
	if same {
		st.epoch = ins[0].st.epoch
	} else {
		st.epoch = vc.newEpoch()
	}
	keys := map[string]bool{}
	for _, e := range ins {
		for k := range e.st.heap {
			keys[k] = true
		}
	}
	if !same {
		for k := range vc.comps {
			keys[k] = true
		}
	}
	for _, k := range sortedKeys(keys) {
		srt := vc.comps[k]
		var terms []string
		allSame := true
		for _, e := range ins {
			t := vc.comp(e.st, k, srt)
			terms = append(terms, t)
			if t != terms[0] {
				allSame = false
			}
		}
		if allSame {
			st.heap[k] = terms[0]
			continue
		}
		m := terms[len(terms)-1]
		for i := len(terms) - 2; i >= 0; i-- {
			m = ite(ins[i].cond, terms[i], m)
		}
		st.heap[k] = vc.define(k, srt, m)
	}
	// alloc
	al := ins[len(ins)-1].st.alloc
	for i := len(ins) - 2; i >= 0; i-- {
		al = ite(ins[i].cond, ins[i].st.alloc, al)
	}
	st.alloc = vc.define("alloc", "Int", al)
	// ghosts
	for g := range ins[0].st.ghost {
		tv := ins[len(ins)-1].st.ghost[g]
		m := tv.T
		for i := len(ins) - 2; i >= 0; i-- {
			m = ite(ins[i].cond, ins[i].st.ghost[g].T, m)
		}
		tv.T = vc.define("ghost."+g, tv.S, m)
		st.ghost[g] = tv
	}
	return st
}

func (f *frame) block(b *ssa.BasicBlock, entry *bstate, back map[[2]*ssa.BasicBlock]bool) {
	vc := f.vc
	var st *bstate
	ins := f.inEdges(b, back, false)
	li := f.loops[b]
	if b.Index == 0 {
		st = entry.clone()
	} else {
		if len(ins) == 0 {
			return // unreachable
		}
		st = f.mergeStates(b, ins)
	}
	// phis
	nphi := 0
	for _, in := range b.Instrs {
		phi, ok := in.(*ssa.Phi)
		if !ok {
			break
		}
		nphi++
		if li != nil {
			continue
		}
		if _, isPtrLV := f.phiLV(phi, ins); isPtrLV {
			continue
		}
		s := f.sortOf(phi.Type())
		m := f.val(phi.Edges[ins[len(ins)-1].pidx]).T
		for i := len(ins) - 2; i >= 0; i-- {
			m = ite(ins[i].cond, f.val(phi.Edges[ins[i].pidx]).T, m)
		}
		f.setVal(phi, TV{T: vc.define(f.id+phi.Name(), s, m), S: s, Ty: phi.Type()})
	}
	if li != nil {
		f.loopHeader(b, li, st, ins)
	}
	// instructions
	for i := nphi; i < len(b.Instrs); i++ {
		f.instr(b.Instrs[i], st)
	}
	f.out[b] = st
	// back edges out of this block: invariant preservation
	for slot, s := range b.Succs {
		if back[[2]*ssa.BasicBlock{b, s}] {
			f.loopBack(b, slot, s, st)
		}
	}
}

// phiLV: a phi of interior pointers that all denote the same lvalue.
func (f *frame) phiLV(phi *ssa.Phi, ins []inEdge) (*LV, bool) {
	var first *LV
	for _, e := range ins {
		lv, ok := f.lvs[phi.Edges[e.pidx]]
		if !ok {
			return nil, false
		}
		if first == nil {
			first = lv
		} else if fmt.Sprint(*first) != fmt.Sprint(*lv) {
			unsup("phi of distinct interior pointers")
		}
	}
	if first == nil {
		return nil, false
	}
	f.lvs[phi] = first
	return first, true
}

// ---------------------------------------------------------------------------
// loops

func (f *frame) loopContract(li *loopInfo) *LoopC {
	if f.contract == nil {
		return nil
	}
	lc := f.contract.Loops[li.ord]
	if f.top && f.eng().noSwallowActive(f.contract) {
		// implicit invariant of noswallow functions
		if lc == nil {
			lc = &LoopC{Ord: li.ord}
			f.contract.Loops[li.ord] = lc
		}
		has := false
		for _, inv := range lc.Invs {
			if inv.Text == noSwallowInvText {
				has = true
			}
		}
		if !has {
			e, _ := ParseCExpr("!" + noSwallowGhost)
			lc.Invs = append(lc.Invs, &Clause{Kind: "invariant", Text: noSwallowInvText, Expr: e, Tags: f.contract.NoSwallowTags})
		}
	}
	if f.top && f.lockBal && f.loopTouchesLocks(li) {
		if lc == nil {
			lc = &LoopC{Ord: li.ord}
			f.contract.Loops[li.ord] = lc
		}
		has := false
		for _, inv := range lc.Invs {
			if inv.Text == lockBalInvText {
				has = true
			}
		}
		if !has {
			e, _ := ParseCExpr(lockDepthGhost + " == 0")
			lc.Invs = append(lc.Invs, &Clause{Kind: "invariant", Text: lockBalInvText, Expr: e, Tags: f.contract.LockBalancedTags})
		}
	}
	return lc
}

func (f *frame) loopTouchesLocks(li *loopInfo) bool {
	for b := range li.body {
		for _, in := range b.Instrs {
			if ci, ok := in.(ssa.CallInstruction); ok {
				if lockDelta(calleeName(ci.Common())) != 0 {
					return true
				}
			}
		}
	}
	return false
}

const noSwallowInvText = "noswallow: no iteration continues after a call returned an error"

func (f *frame) loopModSet(li *loopInfo) *modSet {
	mods := newModSet()
	for b := range li.body {
		for _, in := range b.Instrs {
			f.instrMods(in, mods, 0)
		}
	}
	return mods
}

func (f *frame) instrMods(in ssa.Instruction, mods *modSet, depth int) {
	if depth > 0 {
		// instruction of an inlined callee: its values mean nothing in the
		// caller; objects it allocates are fresh, other stores hit the whole component
		switch x := in.(type) {
		case *ssa.Alloc, *ssa.MakeSlice, *ssa.MakeMap:
			return
		case *ssa.Store:
			tmp := newModSet()
			f.storeComps(x.Addr, tmp)
			if tmp.star {
				mods.star = true
			}
			for c, me := range tmp.m {
				fresh := !me.all && len(me.refs)+len(me.subRoots) > 0
				for _, rv := range append(append([]ssa.Value{}, me.refs...), me.subRoots...) {
					switch rv.(type) {
					case *ssa.Alloc, *ssa.MakeSlice, *ssa.MakeMap:
					default:
						fresh = false
					}
				}
				if !fresh {
					mods.addAll(c, me.sort)
				}
			}
			return
		}
	}
	switch x := in.(type) {
	case *ssa.Store:
		f.storeComps(x.Addr, mods)
	case *ssa.MapUpdate:
		mt := x.Map.Type().Underlying().(*types.Map)
		k, v := f.sortOf(mt.Key()), f.sortOf(mt.Elem())
		f.mapMods(k, v, mods)
	case *ssa.Alloc:
		et := x.Type().(*types.Pointer).Elem()
		for _, c := range f.objCells(et, "0") {
			mods.addAt(c.comp, c.sort, x)
		}
	case *ssa.MakeSlice:
		es := f.sortOf(x.Type().Underlying().(*types.Slice).Elem())
		mods.addAt(compMem(es), arr2(es), x)
	case *ssa.Convert:
		if sl, ok := x.Type().Underlying().(*types.Slice); ok {
			es := f.sortOf(sl.Elem())
			mods.addAll(compMem(es), arr2(es))
		}
	case *ssa.MakeMap:
		mt := x.Type().Underlying().(*types.Map)
		k, v := f.sortOf(mt.Key()), f.sortOf(mt.Elem())
		mods.addAt(compMdom(k, v), "(Array Int (Array "+k+" Bool))", x)
		mods.addAt(compMval(k, v), "(Array Int (Array "+k+" "+v+"))", x)
	case *ssa.Go, *ssa.Send, *ssa.Select, *ssa.Defer, *ssa.RunDefers:
		mods.star = true
	case *ssa.UnOp:
		if x.Op == token.ARROW {
			mods.star = true
		}
	case ssa.CallInstruction:
		f.callMods(x, mods, depth)
	}
}

func (f *frame) loopHeader(b *ssa.BasicBlock, li *loopInfo, st *bstate, ins []inEdge) {
	vc := f.vc
	lc := f.loopContract(li)
	// invariant on entry, per entry edge
	if lc != nil {
		for _, e := range ins {
			env := f.headEnv(b, func(phi *ssa.Phi) TV { return f.val(phi.Edges[e.pidx]) }, e.st)
			est := e.st.clone()
			est.alive = e.cond
			for _, inv := range lc.Invs {
				if !f.eng().clauseActive(inv) {
					continue
				}
				g := f.transBool(inv.Expr, env)
				f.obligeClause(est, "inv-init", fmt.Sprintf("loop%d:%s", li.ord, inv.Text), g, inv, b.Instrs[0].Pos())
			}
		}
	}
	// objects that may escape somewhere in the loop body count as escaped
	// from the header on (an earlier iteration may have leaked them)
	if top := f.topFrame(); top.escSites != nil {
		for site, refs := range top.escSites {
			if li.body[site.Block()] && site.Parent() == f.fn {
				if st.leaked == nil {
					st.leaked = map[string]bool{}
				}
				for _, rr := range refs {
					st.leaked[rr] = true
				}
			}
		}
	}
	// havoc
	mods := f.loopModSet(li)
	if mods.star {
		// unknown code runs in the body: everything it can reach is havocked;
		// objects private to this function are kept by havocAll, so what the
		// body itself writes to them is havocked below like in the other case
		f.havocAll(st, "loop")
	}
	{
		for _, c := range mods.keys() {
			me := mods.m[c]
			vc.comps[c] = me.sort
			pointwise := !me.all && len(me.refs)+len(me.subRoots) > 0
			// nested writes: fine when the root object is allocated inside the
			// loop (fresh every iteration), otherwise the component is havocked
			for _, r := range me.subRoots {
				in, ok := r.(*ssa.Alloc)
				if !ok || !li.body[in.Block()] {
					pointwise = false
				}
			}
			if os.Getenv("GVC_DEBUG") != "" {
				fmt.Fprintf(os.Stderr, "loop mods %s all=%v refs=%v\n", c, me.all, me.refs)
			}
			if pointwise {
				for _, r := range me.refs {
					if in, ok := r.(ssa.Instruction); ok && li.body[in.Block()] {
						switch in.(type) {
						case *ssa.Alloc, *ssa.MakeSlice, *ssa.MakeMap:
							// objects allocated inside the loop are fresh in every
							// iteration: writes to them do not touch older objects
							continue
						}
						pointwise = false
					}
					if _, isLV := f.lvs[r]; isLV {
						pointwise = false
					}
				}
			}
			if !pointwise {
				st.heap[c] = vc.fresh(c+"@loop", me.sort)
				continue
			}
			cur := vc.comp(st, c, me.sort)
			inner := me.sort[len("(Array Int ") : len(me.sort)-1]
			for _, r := range me.refs {
				if in, ok := r.(ssa.Instruction); ok && li.body[in.Block()] {
					continue
				}
				rv := f.val(r)
				ref := rv.T
				if rv.S == "Slice" {
					ref = "(s_base " + rv.T + ")"
				}
				cur = sto(cur, ref, vc.fresh(c+"@loopcell", inner))
			}
			st.heap[c] = vc.define(c+"@loop", me.sort, cur)
		}
		na := vc.fresh("alloc", "Int")
		vc.assert(fmt.Sprintf("(>= %s %s)", na, st.alloc))
		st.alloc = na
	}
	if f.loopAlloc == nil {
		f.loopAlloc = map[*ssa.BasicBlock]string{}
	}
	f.loopAlloc[b] = st.alloc
	for _, in := range b.Instrs {
		phi, ok := in.(*ssa.Phi)
		if !ok {
			break
		}
		tv := f.havocValue(st, f.id+phi.Name()+"."+phi.Comment, phi.Type())
		f.setVal(phi, tv)
	}
	ghostMods := f.loopGhostMods(li)
	for g, tv := range st.ghost {
		if !ghostMods[g] {
			continue
		}
		tv.T = vc.fresh("ghost."+g, tv.S)
		st.ghost[g] = tv
	}
	f.monotonePhis(b, li, st, ins)
	if lc != nil {
		env := f.headEnv(b, func(phi *ssa.Phi) TV { return f.val(phi) }, st)
		var invs []string
		for _, inv := range lc.Invs {
			if !f.eng().clauseActive(inv) {
				continue
			}
			invs = append(invs, f.transBool(inv.Expr, env))
		}
		st.alive = vc.define("a", "Bool", and(append([]string{st.alive}, invs...)...))
		if lc.Decr != nil {
			if f.variant0 == nil {
				f.variant0 = map[*ssa.BasicBlock]string{}
			}
			v := f.trans(lc.Decr.Expr, env)
			f.variant0[b] = vc.define("variant", "Int", f.toInt(v))
		}
	}
}

func (f *frame) mapMods(k, v string, mods *modSet) {
	mods.addAll(compMdom(k, v), "(Array Int (Array "+k+" Bool))")
	mods.addAll(compMval(k, v), "(Array Int (Array "+k+" "+v+"))")
}

func (f *frame) loopBack(b *ssa.BasicBlock, slot int, h *ssa.BasicBlock, st *bstate) {
	li := f.loops[h]
	lc := f.loopContract(li)
	if lc == nil {
		return
	}
	cond, ok := f.edge[[2]int{b.Index, slot}]
	if !ok {
		return
	}
	// which pred index of h is this?
	occ := 0
	for s := 0; s < slot; s++ {
		if b.Succs[s] == h {
			occ++
		}
	}
	pidx := -1
	n := 0
	for i, p := range h.Preds {
		if p == b {
			if n == occ {
				pidx = i
			}
			n++
		}
	}
	env := f.headEnv(h, func(phi *ssa.Phi) TV { return f.val(phi.Edges[pidx]) }, st)
	est := st.clone()
	est.alive = cond
	for _, inv := range lc.Invs {
		if !f.eng().clauseActive(inv) {
			continue
		}
		g := f.transBool(inv.Expr, env)
		f.obligeClause(est, "inv-keep", fmt.Sprintf("loop%d:%s", li.ord, inv.Text), g, inv, b.Instrs[len(b.Instrs)-1].Pos())
	}
	if lc.Decr != nil && f.eng().clauseActive(lc.Decr) {
		v0 := f.variant0[h]
		v := f.toInt(f.trans(lc.Decr.Expr, env))
		f.obligeClause(est, "variant", fmt.Sprintf("loop%d:%s", li.ord, lc.Decr.Text), fmt.Sprintf("(and (>= %s 0) (< %s %s))", v0, v, v0), lc.Decr, token.NoPos)
	}
}

func (f *frame) obligeClause(st *bstate, kind, what, goal string, c *Clause, pos token.Pos) {
	n := len(f.vc.obls)
	f.oblige(st, kind, what, goal, pos)
	if len(f.vc.obls) > n {
		o := f.vc.obls[len(f.vc.obls)-1]
		o.Clause = c
		o.Tags = c.Tags
		if !o.Pos.IsValid() {
			o.Pos = token.Position{Filename: c.File, Line: c.Line}
		}
	}
}

// headEnv builds the name environment at a loop header: phis by their source
// names, then parameters, then named locals that dominate the header.
func (f *frame) headEnv(h *ssa.BasicBlock, phiVal func(*ssa.Phi) TV, st *bstate) *Env {
	env := f.baseEnv(st)
	for _, in := range h.Instrs {
		phi, ok := in.(*ssa.Phi)
		if !ok {
			break
		}
		if phi.Comment != "" {
			if _, isLV := f.lvs[phi]; !isLV {
				env.vars[phi.Comment] = phiVal(phi)
			}
		}
	}
	env.anchorBlock = h
	env.anchorIdx = 0
	return env
}

func (f *frame) baseEnv(st *bstate) *Env {
	env := &Env{f: f, vars: map[string]TV{}, st: st, old: f.entry, pkg: f.fn.Pkg.Pkg, paramVars: f.params}
	for n, tv := range st.ghost {
		env.vars[n] = tv
	}
	env.oldVars = f.params
	return env
}

// ---------------------------------------------------------------------------
// havoc

func (f *frame) havocAll(st *bstate, why string) {
	vc := f.vc
	type keep struct {
		c   cellRef
		old string
	}
	var keeps []keep
	for fr := f; fr != nil; fr = fr.caller {
		for _, la := range fr.locals {
			if !la.isPrivate(st) {
				continue
			}
			for _, c := range f.objCells(la.ty, la.ref.T) {
				keeps = append(keeps, keep{c, sel(vc.comp(st, c.comp, c.sort), c.ref)})
			}
		}
	}
	// globals assumed immutable by foreign code are kept
	kept := map[string]string{}
	for k, v := range st.heap {
		if strings.HasPrefix(k, "G:") && !f.eng().mutableGlobal(k) {
			kept[k] = v
		}
	}
	oldEpoch := st.epoch
	st.heap = map[string]string{}
	for k, v := range kept {
		st.heap[k] = v
	}
	st.epoch = vc.newEpoch()
	_ = oldEpoch
	na := vc.fresh("alloc", "Int")
	vc.assert(fmt.Sprintf("(>= %s %s)", na, st.alloc))
	st.alloc = na
	for _, k := range keeps {
		vc.assert(eq(sel(vc.comp(st, k.c.comp, k.c.sort), k.c.ref), k.old))
	}
	f.reassumeParamInvs(st)
}

// reassumeParamInvs: type invariants of objects reachable through pointer
// parameters survive foreign code (it cannot write unexported fields) and repo
// callees (they are verified to preserve them, or the invariant is an assumed one).
func (f *frame) reassumeParamInvs(st *bstate) {
	top := f
	for top.caller != nil {
		top = top.caller
	}
	if top.fn != nil {
		for _, p := range top.fn.Params {
			if _, ok := p.Type().Underlying().(*types.Pointer); ok {
				if tv, ok := top.vals[p]; ok {
					for _, fact := range f.ptrInvs(tv, st, false) {
						f.assume(st, fact)
					}
				}
			}
		}
	}
}

// immutable globals read lazily must not depend on the epoch
func (vc *VC) globalComp(st *bstate, name, sort string, mutable bool) string {
	if mutable {
		return vc.comp(st, name, sort)
	}
	if t, ok := st.heap[name]; ok {
		return t
	}
	vc.comps[name] = sort
	t := vc.declare(name+"@e0", sort)
	st.heap[name] = t
	return t
}

// monotonePhis: a header phi p = phi[init, p+k...] with constant k > 0 on
// every back edge satisfies p >= init (p <= init for k < 0). This is a
// syntactic induction (machine overflow ignored, see assumptions).
func (f *frame) monotonePhis(b *ssa.BasicBlock, li *loopInfo, st *bstate, ins []inEdge) {
	for _, in := range b.Instrs {
		phi, ok := in.(*ssa.Phi)
		if !ok {
			break
		}
		tv, ok := f.vals[phi]
		if !ok || tv.S != "Int" {
			continue
		}
		dir := 0
		okAll := true
		var inits []ssa.Value
		for i, p := range b.Preds {
			e := phi.Edges[i]
			if !li.body[p] {
				inits = append(inits, e)
				continue
			}
			if e == ssa.Value(phi) {
				continue
			}
			bo, isB := e.(*ssa.BinOp)
			if !isB || bo.X != ssa.Value(phi) {
				okAll = false
				break
			}
			c, isC := bo.Y.(*ssa.Const)
			if !isC || c.Value == nil {
				okAll = false
				break
			}
			k := c.Int64()
			if bo.Op.String() == "-" {
				k = -k
			} else if bo.Op.String() != "+" {
				okAll = false
				break
			}
			switch {
			case k > 0 && dir >= 0:
				dir = 1
			case k < 0 && dir <= 0:
				dir = -1
			default:
				okAll = false
			}
		}
		if !okAll || dir == 0 || len(inits) == 0 {
			continue
		}
		for _, iv := range inits[1:] {
			if iv != inits[0] {
				okAll = false
			}
		}
		if !okAll {
			continue
		}
		if _, isLV := f.lvs[inits[0]]; isLV {
			continue
		}
		init := f.val(inits[0])
		if dir > 0 {
			f.vc.assert(implies(st.alive, "(>= "+tv.T+" "+init.T+")"))
		} else {
			f.vc.assert(implies(st.alive, "(<= "+tv.T+" "+init.T+")"))
		}
		f.vc.note("auto-invariant: monotone loop counters are bounded by their initial value (syntactic induction)")
	}
}

// loopGhostMods: ghosts assigned by a call-site annotation whose callee is
// called somewhere in the loop body (ordinals ignored: a superset).
func (f *frame) loopGhostMods(li *loopInfo) map[string]bool {
	out := map[string]bool{}
	for b := range li.body {
		for _, in := range b.Instrs {
			if n, ok := in.(*ssa.Next); ok {
				if r, ok := n.Iter.(*ssa.Range); ok {
					if g, ok := f.visitedName[r]; ok {
						out[g] = true
					}
				}
			}
		}
	}
	if f.contract == nil || !f.top {
		return out
	}
	if f.eng().noSwallowActive(f.contract) {
		out[noSwallowGhost] = true
	}
	if f.lockBal && f.loopTouchesLocks(li) {
		out[lockDepthGhost] = true
	}
	for b := range li.body {
		for _, in := range b.Instrs {
			ci, ok := in.(ssa.CallInstruction)
			if !ok {
				continue
			}
			name := calleeName(ci.Common())
			for _, cs := range f.contract.Callsites {
				if matchCallee(cs.Callee, name) {
					for _, ga := range cs.Before {
						out[ga.Name] = true
					}
					for _, ga := range cs.After {
						out[ga.Name] = true
					}
				}
			}
		}
	}
	return out
}
