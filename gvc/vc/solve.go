package vc

import (
	"bytes"
	"context"
	"fmt"
	"os"
	"os/exec"
	"path/filepath"
	"strings"
	"sync"
	"time"
)

type SolverCfg struct {
	WorkDir   string
	BatchMs   int // per-query timeout in the batch pass
	SingleMs  int // per-query timeout when racing individually
	Parallel  int
	Confirm   bool // thorough: re-submit discharged obligations to the other solver family
	KeepFiles bool
}

type SolveStats struct {
	mu        sync.Mutex
	ByBackend map[string]*BackendStat
}

type BackendStat struct {
	N    int
	Secs float64
}

func (s *SolveStats) add(solver string, secs float64) {
	s.mu.Lock()
	defer s.mu.Unlock()
	if s.ByBackend == nil {
		s.ByBackend = map[string]*BackendStat{}
	}
	b := s.ByBackend[solver]
	if b == nil {
		b = &BackendStat{}
		s.ByBackend[solver] = b
	}
	b.N++
	b.Secs += secs
}

func (vc *VC) smtBody() string {
	var b strings.Builder
	b.WriteString(prelude)
	for _, d := range vc.sr.decls {
		b.WriteString(d)
		b.WriteByte('\n')
	}
	for _, d := range vc.decls {
		b.WriteString(d)
		b.WriteByte('\n')
	}
	for _, a := range vc.asserts {
		b.WriteString("(assert ")
		b.WriteString(a)
		b.WriteString(")\n")
	}
	return b.String()
}

func oblQuery(o *Obl) string {
	if o.Cover {
		return "(assert " + o.Guard + ")"
	}
	return "(assert (and " + o.Guard + " (not " + o.Goal + ")))"
}

type solverDef struct {
	name string
	args func(ms int, file string) []string
	head string
}

var solvers = []solverDef{
	{"z3-new", func(ms int, file string) []string { return []string{"z3-new", "-smt2", fmt.Sprintf("-t:%d", ms), file} }, ""},
	{"z3", func(ms int, file string) []string { return []string{"z3", "-smt2", fmt.Sprintf("-t:%d", ms), file} }, ""},
	{"cvc5", func(ms int, file string) []string {
		return []string{"cvc5", "--incremental", fmt.Sprintf("--tlimit-per=%d", ms), file}
	}, "(set-option :produce-models true)\n(set-logic ALL)\n"},
}

func runSolver(ctx context.Context, sd solverDef, ms int, file string, hardMs int) (string, float64) {
	args := sd.args(ms, file)
	cctx, cancel := context.WithTimeout(ctx, time.Duration(hardMs)*time.Millisecond)
	defer cancel()
	cmd := exec.CommandContext(cctx, args[0], args[1:]...)
	var out bytes.Buffer
	cmd.Stdout = &out
	cmd.Stderr = &out
	t0 := time.Now()
	_ = cmd.Run()
	return out.String(), time.Since(t0).Seconds()
}

func safeFile(s string) string {
	var b strings.Builder
	for _, c := range s {
		switch {
		case c >= 'a' && c <= 'z', c >= 'A' && c <= 'Z', c >= '0' && c <= '9', c == '.', c == '-':
			b.WriteRune(c)
		default:
			b.WriteByte('_')
		}
	}
	r := b.String()
	if len(r) > 100 {
		r = r[:100]
	}
	return r
}

// Solve discharges all obligations of the VC.
func (vc *VC) Solve(cfg SolverCfg, stats *SolveStats, sem chan struct{}) {
	if vc.unsupp != "" || len(vc.obls) == 0 {
		return
	}
	body := vc.smtBody()
	base := filepath.Join(cfg.WorkDir, safeFile(vc.name))
	// pass 1: every obligation on its own with z3-new (short timeout), in parallel
	{
		var wg sync.WaitGroup
		for idx, o := range vc.obls {
			o := o
			file := fmt.Sprintf("%s.o%d.smt2", base, idx)
			wg.Add(1)
			go func() {
				defer wg.Done()
				content := body + oblQuery(o) + "\n(check-sat)\n"
				if o.Cover {
					// reachability guards are first tried without the quantified
					// assumptions (cheap; a model of the quantifier-free part is what
					// the fallback below accepted anyway)
					file0 := file + ".qf0.smt2"
					os.WriteFile(file0, []byte(stripQuantified(body)+oblQuery(o)+"\n(check-sat)\n"), 0o644)
					sem <- struct{}{}
					out0, secs0 := runSolver(context.Background(), solvers[0], cfg.BatchMs, file0, cfg.BatchMs+5000)
					<-sem
					os.Remove(file0)
					switch firstAnswer(out0) {
					case "sat":
						o.Status, o.Solver, o.Secs = "proved", "z3-new", secs0
						o.Out = "reachable (quantified assumptions ignored)"
						stats.add("z3-new", secs0)
						return
					case "unsat":
						o.Status, o.Solver, o.Secs = "refuted", "z3-new", secs0
						return
					}
				}
				os.WriteFile(file, []byte(content), 0o644)
				sem <- struct{}{}
				out, secs := runSolver(context.Background(), solvers[0], cfg.BatchMs, file, cfg.BatchMs+5000)
				<-sem
				if !cfg.KeepFiles {
					os.Remove(file)
				}
				a := firstAnswer(out)
				if strings.Contains(out, "(error") && a == "none" {
					o.Out = strings.TrimSpace(out)
					if len(o.Out) > 300 {
						o.Out = o.Out[:300]
					}
					o.Status = "error"
					return
				}
				switch {
				case a == "unsat" && !o.Cover, a == "sat" && o.Cover:
					o.Status, o.Solver, o.Secs = "proved", "z3-new", secs
					stats.add("z3-new", secs)
				case (a == "unknown" || a == "timeout" || a == "none") && !o.Cover:
					// quantified assumptions can drown an easy goal: drop them (fewer
					// assumptions: a proof of the relaxed query is a proof)
					qfBody := stripQuantified(body)
					file2 := file + ".qf.smt2"
					os.WriteFile(file2, []byte(qfBody+oblQuery(o)+"\n(check-sat)\n"), 0o644)
					sem <- struct{}{}
					out2, secs2 := runSolver(context.Background(), solvers[0], cfg.BatchMs, file2, cfg.BatchMs+5000)
					<-sem
					os.Remove(file2)
					if firstAnswer(out2) == "unsat" {
						o.Status, o.Solver, o.Secs = "proved", "z3-new", secs+secs2
						o.Out = "proved without the quantified assumptions"
						stats.add("z3-new", secs+secs2)
					}
				case (a == "unknown" || a == "timeout") && o.Cover:
					// reachability could not be established because of quantifiers:
					// retry without the quantified assertions (a weaker guard, but a
					// contradiction among the quantifier-free facts is still caught)
					o.Status, o.Solver, o.Secs = "cover-unknown", "z3-new", secs
					qfBody := stripQuantified(body)
					file2 := file + ".qf.smt2"
					os.WriteFile(file2, []byte(qfBody+oblQuery(o)+"\n(check-sat)\n"), 0o644)
					sem <- struct{}{}
					out2, secs2 := runSolver(context.Background(), solvers[0], cfg.BatchMs, file2, cfg.BatchMs+5000)
					<-sem
					os.Remove(file2)
					switch firstAnswer(out2) {
					case "sat":
						o.Status, o.Secs = "proved", secs+secs2
						o.Out = "reachable (quantified assumptions ignored)"
					case "unsat":
						o.Status, o.Secs = "refuted", secs+secs2
					}
				}
			}()
		}
		wg.Wait()
		for _, o := range vc.obls {
			if o.Status == "error" {
				vc.unsupp = "solver error: " + o.Out
				return
			}
		}
	}
	// pass 2: race individually
	var wg sync.WaitGroup
	for _, o := range vc.obls {
		if o.Status != "" {
			continue
		}
		o := o
		wg.Add(1)
		go func() {
			defer wg.Done()
			vc.raceOne(o, body, base, cfg, stats, sem)
		}()
	}
	wg.Wait()
	if cfg.Confirm {
		for _, o := range vc.obls {
			if o.Status == "proved" && !o.Cover {
				o := o
				wg.Add(1)
				go func() {
					defer wg.Done()
					vc.confirm(o, body, base, cfg, stats, sem)
				}()
			}
		}
		wg.Wait()
	}
}

func firstAnswer(out string) string {
	for _, l := range strings.Split(out, "\n") {
		l = strings.TrimSpace(l)
		switch l {
		case "sat", "unsat", "unknown", "timeout":
			return l
		}
	}
	return "none"
}

func (vc *VC) raceOne(o *Obl, body, base string, cfg SolverCfg, stats *SolveStats, sem chan struct{}) {
	type ans struct {
		solver string
		res    string
		out    string
		secs   float64
	}
	ctx, cancel := context.WithCancel(context.Background())
	defer cancel()
	ch := make(chan ans, len(solvers))
	for _, sd := range solvers {
		sd := sd
		go func() {
			file := fmt.Sprintf("%s.%s.%s.smt2", base, safeFile(o.Name[strings.LastIndex(o.Name, "/")+1:]), sd.name)
			file = uniqueFile(file)
			content := sd.head + body + oblQuery(o) + "\n(check-sat)\n(get-model)\n"
			os.WriteFile(file, []byte(content), 0o644)
			sem <- struct{}{}
			out, secs := runSolver(ctx, sd, cfg.SingleMs, file, cfg.SingleMs+5000)
			<-sem
			if !cfg.KeepFiles {
				os.Remove(file)
			}
			ch <- ans{sd.name, firstAnswer(out), out, secs}
		}()
	}
	want, refute := "unsat", "sat"
	if o.Cover {
		want, refute = "sat", "unsat"
	}
	var outs []string
	for range solvers {
		a := <-ch
		outs = append(outs, a.solver+": "+a.res)
		if a.res == want {
			o.Status, o.Solver, o.Secs = "proved", a.solver, a.secs
			stats.add(a.solver, a.secs)
			cancel()
			return
		}
		if a.res == refute {
			o.Status, o.Solver, o.Secs = "refuted", a.solver, a.secs
			o.Model = a.out
			stats.add(a.solver, a.secs)
			cancel()
			return
		}
	}
	o.Status = "undecided"
	o.Out = strings.Join(outs, "; ")
}

var fileMu sync.Mutex
var fileSeen = map[string]int{}

func uniqueFile(f string) string {
	fileMu.Lock()
	defer fileMu.Unlock()
	fileSeen[f]++
	if n := fileSeen[f]; n > 1 {
		return fmt.Sprintf("%s.%d", f, n)
	}
	return f
}

// confirm re-submits a proved obligation to the other solver family.
func (vc *VC) confirm(o *Obl, body, base string, cfg SolverCfg, stats *SolveStats, sem chan struct{}) {
	other := solvers[2]
	if o.Solver == "cvc5" {
		other = solvers[0]
	}
	file := uniqueFile(fmt.Sprintf("%s.%s.confirm.smt2", base, safeFile(o.Name[strings.LastIndex(o.Name, "/")+1:])))
	os.WriteFile(file, []byte(other.head+body+oblQuery(o)+"\n(check-sat)\n"), 0o644)
	sem <- struct{}{}
	out, secs := runSolver(context.Background(), other, cfg.SingleMs, file, cfg.SingleMs+5000)
	<-sem
	os.Remove(file)
	switch firstAnswer(out) {
	case "unsat":
		o.Out = "confirmed by " + other.name
		stats.add(other.name+"(confirm)", secs)
	case "sat":
		o.Status = "contradiction"
		o.Out = other.name + " answers sat against " + o.Solver + " unsat"
		o.Model = out
	default:
		o.Out = "unconfirmed by " + other.name
	}
}

// stripQuantified drops assertions that contain quantifiers.
func stripQuantified(body string) string {
	var b strings.Builder
	for _, l := range strings.Split(body, "\n") {
		if strings.HasPrefix(l, "(assert ") && (strings.Contains(l, "(forall ") || strings.Contains(l, "(exists ")) {
			continue
		}
		b.WriteString(l)
		b.WriteByte('\n')
	}
	return b.String()
}
