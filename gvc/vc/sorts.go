package vc

import (
	"crypto/sha256"
	"fmt"
	"go/types"
	"strings"
	"sync"
)

// TV is an SMT term with its sort and (optionally) Go type.
type TV struct {
	T     string
	S     string
	Ty    types.Type
	Tuple []TV // for multi-value results
	Lit   bool // untyped integer literal (adapts to BV/Int)
	LV    *LV  // call-site argument that is an interior pointer (element of a slice, field of a local): what it points to
}

type structInfo struct {
	sort   string
	st     *types.Struct
	named  types.Type
	fields []string // selector names
	fsorts []string
}

// sorts registry; one per VC (so declarations are emitted per query set).
// sortTypes remembers, across VCs, the Go type behind every struct sort name:
// component sorts computed for one VC (write summaries are cached) may be
// used in another one, whose registry then has to declare the datatype too.
var (
	sortTypesMu sync.Mutex
	sortTypes   = map[string]types.Type{}
)

// ensureSorts declares every struct sort mentioned in an SMT sort expression.
func (r *sortReg) ensureSorts(sort string) {
	for {
		i := strings.Index(sort, "|")
		if i < 0 {
			return
		}
		j := strings.Index(sort[i+1:], "|")
		if j < 0 {
			return
		}
		name := sort[i : i+j+2]
		sort = sort[i+j+2:]
		known := false
		for _, si := range r.structs {
			if si.sort == name {
				known = true
			}
		}
		if known {
			continue
		}
		sortTypesMu.Lock()
		t := sortTypes[name]
		sortTypesMu.Unlock()
		if t != nil {
			r.structSort(t)
		}
	}
}

type sortReg struct {
	structs  []*structInfo
	decls    []string // sort declarations in dependency order
	seen     map[string]bool
	tupleCnt int
}

func newSortReg() *sortReg { return &sortReg{seen: map[string]bool{}} }

func q(s string) string {
	// quote as SMT symbol
	s = strings.NewReplacer("|", "!", "\\", "!").Replace(s)
	return "|" + s + "|"
}

func bvSort(n int) string { return fmt.Sprintf("(_ BitVec %d)", n) }

func isBV(s string) bool { return strings.HasPrefix(s, "(_ BitVec") }
func bvWidth(s string) int {
	var n int
	fmt.Sscanf(s, "(_ BitVec %d)", &n)
	return n
}

type unsupported string

func unsup(f string, a ...interface{}) { panic(unsupported(fmt.Sprintf(f, a...))) }

func (r *sortReg) sortOf(t types.Type) string {
	switch u := t.Underlying().(type) {
	case *types.Basic:
		switch u.Kind() {
		case types.Bool, types.UntypedBool:
			return "Bool"
		case types.String, types.UntypedString:
			return "Str"
		case types.Uint8:
			return bvSort(8)
		case types.Uint16:
			return bvSort(16)
		case types.Uint32:
			return bvSort(32)
		case types.Uint64:
			return bvSort(64)
		case types.Int, types.Int8, types.Int16, types.Int32, types.Int64, types.Uint, types.Uintptr, types.UntypedInt, types.UntypedRune, types.UnsafePointer:
			return "Int"
		case types.Float32, types.Float64, types.UntypedFloat:
			return "Real"
		case types.Complex64, types.Complex128:
			return "Real"
		case types.UntypedNil:
			return "Int"
		}
	case *types.Pointer, *types.Map, *types.Chan, *types.Signature:
		return "Int"
	case *types.Slice:
		return "Slice"
	case *types.Interface:
		return "Iface"
	case *types.Struct:
		return r.structSort(t).sort
	case *types.Array:
		return "(Array Int " + r.sortOf(u.Elem()) + ")"
	case *types.Tuple:
		unsup("tuple sort")
	case *types.TypeParam:
		unsup("type parameter")
	}
	unsup("sort of %s", t)
	return ""
}

func (r *sortReg) structSort(t types.Type) *structInfo {
	st := t.Underlying().(*types.Struct)
	for _, si := range r.structs {
		if types.Identical(si.st, st) {
			return si
		}
	}
	name := ""
	if n, ok := t.(*types.Named); ok {
		name = n.Obj().Name()
		if n.Obj().Pkg() != nil {
			name = n.Obj().Pkg().Path() + "." + name
		}
		if n.TypeArgs() != nil && n.TypeArgs().Len() > 0 {
			name += fmt.Sprintf("[%d]", len(r.structs))
		}
	} else if a, ok := t.(*types.Alias); ok {
		name = a.Obj().Name()
	} else {
		h := sha256.Sum256([]byte(types.TypeString(st, nil)))
		name = fmt.Sprintf("struct#%x", h[:5])
	}
	for _, si := range r.structs {
		if si.sort == q(name) {
			h := sha256.Sum256([]byte(types.TypeString(st, nil)))
			name = fmt.Sprintf("%s#%x", name, h[:4])
		}
	}
	si := &structInfo{sort: q(name), st: st, named: t}
	sortTypesMu.Lock()
	sortTypes[q(name)] = t
	sortTypesMu.Unlock()
	r.structs = append(r.structs, si) // register before fields (no recursion expected through values)
	var fl []string
	for i := 0; i < st.NumFields(); i++ {
		fs := r.sortOf(st.Field(i).Type())
		sel := q(name + "." + st.Field(i).Name())
		si.fields = append(si.fields, sel)
		si.fsorts = append(si.fsorts, fs)
		fl = append(fl, "("+sel+" "+fs+")")
	}
	r.decls = append(r.decls, fmt.Sprintf("(declare-datatypes ((%s 0)) (((%s %s))))", si.sort, si.ctor(), strings.Join(fl, " ")))
	return si
}

func (si *structInfo) ctor() string { return q("mk:" + strings.Trim(si.sort, "|")) }

func (si *structInfo) mk(fields []string) string {
	if len(fields) == 0 {
		return si.ctor()
	}
	return "(" + si.ctor() + " " + strings.Join(fields, " ") + ")"
}

// zero value term of a Go type
func (r *sortReg) zero(t types.Type) string {
	switch u := t.Underlying().(type) {
	case *types.Struct:
		si := r.structSort(t)
		var fs []string
		for i := 0; i < u.NumFields(); i++ {
			fs = append(fs, r.zero(u.Field(i).Type()))
		}
		return si.mk(fs)
	case *types.Array:
		return "((as const " + r.sortOf(t) + ") " + r.zero(u.Elem()) + ")"
	}
	return zeroOfSort(r.sortOf(t))
}

func zeroOfSort(s string) string {
	switch {
	case s == "Bool":
		return "false"
	case s == "Int":
		return "0"
	case s == "Real":
		return "0.0"
	case s == "Str":
		return "str_empty"
	case s == "Slice":
		return "(mk_slice 0 0 0 0)"
	case s == "Iface":
		return "(mk_iface 0 0)"
	case isBV(s):
		return bvLit(0, bvWidth(s))
	}
	unsup("zero of sort %s", s)
	return ""
}

func bvLit(v uint64, w int) string {
	if w < 64 {
		v &= (uint64(1) << uint(w)) - 1
	}
	if w%4 == 0 {
		return fmt.Sprintf("#x%0*x", w/4, v)
	}
	return fmt.Sprintf("(_ bv%d %d)", v, w)
}

func intLit(v int64) string {
	if v < 0 {
		return fmt.Sprintf("(- %d)", -v)
	}
	return fmt.Sprintf("%d", v)
}

const prelude = `(declare-sort Str 0)
(declare-fun slen (Str) Int)
(declare-fun sbyte (Str Int) (_ BitVec 8))
(declare-fun slit_id (Str) Int)
(declare-const str_empty Str)
(assert (= (slen str_empty) 0))
(declare-fun sconcat (Str Str) Str)
(declare-fun ssub (Str Int Int) Str)
(declare-fun slt (Str Str) Bool)
(assert (forall ((x Str) (y Str)) (! (=> (slt x y) (and (not (slt y x)) (not (= x y)))) :pattern ((slt x y)))))
(declare-datatypes ((Slice 0)) (((mk_slice (s_base Int) (s_off Int) (s_len Int) (s_cap Int)))))
(declare-datatypes ((Iface 0)) (((mk_iface (i_tag Int) (i_box Int)))))
(define-fun tdiv ((a Int) (b Int)) Int (ite (>= a 0) (ite (> b 0) (div a b) (- (div a (- b)))) (ite (> b 0) (- (div (- a) b)) (div (- a) (- b)))))
(define-fun tmod ((a Int) (b Int)) Int (- a (* b (tdiv a b))))
(declare-fun iand (Int Int) Int)
(declare-fun ior (Int Int) Int)
(declare-fun ixor (Int Int) Int)
(declare-fun ishl (Int Int) Int)
(declare-fun ishr (Int Int) Int)
(declare-fun chan_cap (Int) Int)
`
