package vc

import (
	"fmt"
	"go/token"
	"go/types"
	"sort"
	"strings"

	"golang.org/x/tools/go/ssa"
)

// Obl is one proof obligation: under all assertions of the VC, Guard && !Goal
// must be unsatisfiable. Cover obligations are the opposite: Guard must be
// satisfiable.
type Obl struct {
	Name   string
	Kind   string
	Guard  string
	Goal   string
	Cover  bool
	Tags   []string
	Pos    token.Position
	Func   string
	Clause *Clause
	// result
	Status   string // proved refuted undecided
	Solver   string
	Secs     float64
	Model    string
	Out      string
	NAsserts int // number of asserts visible to this obligation
}

// VC collects everything generated for one top-level function.
type VC struct {
	eng        *Engine
	fn         *ssa.Function
	name       string
	sr         *sortReg
	decls      []string
	declSeen   map[string]bool
	asserts    []string
	obls       []*Obl
	nameCnt    int
	comps      map[string]string // heap component -> SMT sort of the whole component
	lits       map[string]string
	litOrder   []string
	oblNames   map[string]int
	notes      map[string]bool // abstractions / assumptions used
	unsupp     string
	specsUsed  map[string]bool
	specState  map[string]string
	axiomsDone bool
	epochCnt   int
	inputs     []string // names of input constants (for model display)
	funcsSeen  map[string]bool
	immGlobals []immGlobal
}

type immGlobal struct {
	ref string
	ty  types.Type
}

func (vc *VC) note(s string) { vc.notes[s] = true }

func (vc *VC) fresh(hint, sort string) string {
	vc.nameCnt++
	n := q(fmt.Sprintf("%s!%d", hint, vc.nameCnt))
	vc.decls = append(vc.decls, fmt.Sprintf("(declare-const %s %s)", n, sort))
	return n
}

func (vc *VC) declare(name, sort string) string {
	n := q(name)
	if !vc.declSeen[n] {
		vc.declSeen[n] = true
		vc.decls = append(vc.decls, fmt.Sprintf("(declare-const %s %s)", n, sort))
	}
	return n
}

func (vc *VC) declareFun(name string, args []string, ret string) string {
	n := q(name)
	if !vc.declSeen[n] {
		vc.declSeen[n] = true
		vc.decls = append(vc.decls, fmt.Sprintf("(declare-fun %s (%s) %s)", n, strings.Join(args, " "), ret))
	}
	return n
}

func (vc *VC) assert(s string) { vc.asserts = append(vc.asserts, s) }

// define introduces a named constant equal to term (keeps terms small).
func (vc *VC) define(hint, sort, term string) string {
	if len(term) < 24 && !strings.Contains(term, " ") {
		return term
	}
	n := vc.fresh(hint, sort)
	vc.assert(fmt.Sprintf("(= %s %s)", n, term))
	return n
}

func (vc *VC) addObl(o *Obl) {
	o.Name = vc.uniqueName(o.Name)
	o.NAsserts = len(vc.asserts)
	vc.obls = append(vc.obls, o)
}

func (vc *VC) uniqueName(n string) string {
	vc.oblNames[n]++
	if c := vc.oblNames[n]; c > 1 {
		return fmt.Sprintf("%s#%d", n, c)
	}
	return n
}

// string literal constant
func (vc *VC) strLit(s string) string {
	if s == "" {
		return "str_empty"
	}
	if c, ok := vc.lits[s]; ok {
		return c
	}
	c := vc.fresh("lit", "Str")
	vc.lits[s] = c
	vc.litOrder = append(vc.litOrder, s)
	vc.assert(fmt.Sprintf("(= (slen %s) %d)", c, len(s)))
	vc.assert(fmt.Sprintf("(= (slit_id %s) %d)", c, len(vc.litOrder)))
	if len(s) <= 48 {
		for i := 0; i < len(s); i++ {
			vc.assert(fmt.Sprintf("(= (sbyte %s %d) %s)", c, i, bvLit(uint64(s[i]), 8)))
		}
	}
	return c
}

// strFacts emits the per-term facts for a Str-sorted term.
func (vc *VC) strFacts(t string) {
	vc.assert(fmt.Sprintf("(>= (slen %s) 0)", t))
	vc.assert(fmt.Sprintf("(= (= (slen %s) 0) (= %s str_empty))", t, t))
}

// type tags for interface dynamic types
func (vc *VC) tagOf(t types.Type) int { return vc.eng.tagOf(t) }

// ---------------------------------------------------------------------------
// heap state

type bstate struct {
	alive  string
	heap   map[string]string
	epoch  int
	alloc  string
	ghost  map[string]TV
	leaked map[string]bool // refs of tracked locals whose address has escaped
}

func (s *bstate) clone() *bstate {
	n := &bstate{alive: s.alive, heap: make(map[string]string, len(s.heap)), epoch: s.epoch, alloc: s.alloc, ghost: map[string]TV{}}
	for k, v := range s.heap {
		n.heap[k] = v
	}
	for k, v := range s.ghost {
		n.ghost[k] = v
	}
	if s.leaked != nil {
		n.leaked = make(map[string]bool, len(s.leaked))
		for k := range s.leaked {
			n.leaked[k] = true
		}
	}
	return n
}

// comp returns the current term of a heap component, creating it lazily.
func (vc *VC) comp(st *bstate, name, sort string) string {
	if st == nil {
		panic(heapInSpec{})
	}
	if t, ok := st.heap[name]; ok {
		return t
	}
	if old, ok := vc.comps[name]; ok && old != sort {
		panic(fmt.Sprintf("component %s with two sorts %s / %s", name, old, sort))
	}
	vc.comps[name] = sort
	vc.sr.ensureSorts(sort)
	t := vc.declare(fmt.Sprintf("%s@e%d", name, st.epoch), sort)
	st.heap[name] = t
	return t
}

func (vc *VC) setComp(st *bstate, name, sort, term string) {
	vc.comps[name] = sort
	vc.sr.ensureSorts(sort)
	st.heap[name] = vc.define(name, sort, term)
}

func (vc *VC) newEpoch() int { vc.epochCnt++; return vc.epochCnt }

// names of components
func compField(si *structInfo, i int) string {
	return "H:" + strings.Trim(si.fields[i], "|")
}
func compBox(sort string) string  { return "Box:" + sort }
func compMem(sort string) string  { return "Mem:" + sort }
func compMdom(k, v string) string { return "Mdom:" + k + ":" + v }
func compMval(k, v string) string { return "Mval:" + k + ":" + v }
func compGlobal(g *ssa.Global) string {
	return "G:" + g.Pkg.Pkg.Path() + "." + g.Name()
}

func arr1(s string) string { return "(Array Int " + s + ")" }
func arr2(s string) string { return "(Array Int (Array Int " + s + "))" }

// ---------------------------------------------------------------------------

func sortedKeys(m map[string]bool) []string {
	var ks []string
	for k := range m {
		ks = append(ks, k)
	}
	sort.Strings(ks)
	return ks
}

func and(xs ...string) string {
	var ys []string
	for _, x := range xs {
		if x == "true" || x == "" {
			continue
		}
		if x == "false" {
			return "false"
		}
		ys = append(ys, x)
	}
	switch len(ys) {
	case 0:
		return "true"
	case 1:
		return ys[0]
	}
	return "(and " + strings.Join(ys, " ") + ")"
}

func or(xs ...string) string {
	var ys []string
	for _, x := range xs {
		if x == "false" || x == "" {
			continue
		}
		if x == "true" {
			return "true"
		}
		ys = append(ys, x)
	}
	switch len(ys) {
	case 0:
		return "false"
	case 1:
		return ys[0]
	}
	return "(or " + strings.Join(ys, " ") + ")"
}

func not(x string) string {
	switch x {
	case "true":
		return "false"
	case "false":
		return "true"
	}
	if strings.HasPrefix(x, "(not ") && strings.HasSuffix(x, ")") && balanced(x[5:len(x)-1]) {
		return x[5 : len(x)-1]
	}
	return "(not " + x + ")"
}

func balanced(s string) bool {
	d := 0
	inq := false
	for i, c := range s {
		switch {
		case c == '|':
			inq = !inq
		case inq:
		case c == '(':
			d++
		case c == ')':
			d--
			if d == 0 && i != len(s)-1 {
				return false
			}
			if d < 0 {
				return false
			}
		case c == ' ' && d == 0:
			return false
		}
	}
	return d == 0
}

func implies(a, b string) string {
	if a == "true" {
		return b
	}
	if b == "true" {
		return "true"
	}
	return "(=> " + a + " " + b + ")"
}

func ite(c, a, b string) string {
	if c == "true" {
		return a
	}
	if c == "false" {
		return b
	}
	if a == b {
		return a
	}
	return "(ite " + c + " " + a + " " + b + ")"
}

func eq(a, b string) string  { return "(= " + a + " " + b + ")" }
func sel(a, i string) string { return "(select " + a + " " + i + ")" }
func sto(a, i, v string) string {
	return "(store " + a + " " + i + " " + v + ")"
}
