package vc

import (
	"fmt"
	"go/ast"
	"go/types"
	"reflect"
	"strconv"
	"strings"

	"golang.org/x/tools/go/packages"
)

// wire directives pin the XML mapping that encoding/xml derives from a struct
// tag (the decoder side of hand-written encoders): kind and element/attribute
// name of one field. They are compared structurally (no solver): omitempty and
// the order of options do not matter.

type wireInfo struct {
	c   *WireC
	pkg *packages.Package
}

// VerifyWires returns one VC holding an obligation per wire directive active
// for the property (nil if there is none).
func (e *Engine) VerifyWires(prop string) *VC {
	var act []*wireInfo
	for _, w := range e.wires {
		if e.clauseActive(&Clause{Tags: w.c.Tags}) && len(w.c.Tags) > 0 {
			act = append(act, w)
		}
	}
	if len(act) == 0 {
		return nil
	}
	vc := e.newVC(nil)
	vc.name = "wire"
	vc.note("wire: struct tags compared structurally with the pinned XML mapping (kind and name of the field); the meaning of the tags is encoding/xml's")
	for _, w := range act {
		name := w.pkg.PkgPath + ".wire:" + w.c.Ref
		got, err := e.wireOf(w)
		goal := "true"
		want := w.c.Kind
		if w.c.Name != "" {
			want += " " + w.c.Name
		}
		text := fmt.Sprintf("%s is %s", w.c.Ref, want)
		if err != nil {
			goal = "false"
			text += " (" + err.Error() + ")"
		} else if got != want {
			goal = "false"
			text += " (the tag says: " + got + ")"
		}
		o := &Obl{Name: name + "/wire/" + want, Kind: "wire", Guard: "true", Goal: goal, Func: name, Clause: &Clause{Kind: "wire", Text: text, Tags: w.c.Tags, File: w.c.File, Line: w.c.Line}}
		vc.obls = append(vc.obls, o)
	}
	return vc
}

// wireOf: the mapping of the referenced field as "kind [space ]local".
func (e *Engine) wireOf(w *wireInfo) (string, error) {
	ref := w.c.Ref
	i := strings.LastIndex(ref, ".")
	if i < 0 {
		return "", fmt.Errorf("malformed reference")
	}
	owner, field := ref[:i], ref[i+1:]
	var st *types.Struct
	if strings.HasPrefix(owner, "func:") {
		fn := strings.TrimPrefix(owner, "func:")
		k := 1
		if j := strings.LastIndex(fn, "#"); j >= 0 {
			n, err := strconv.Atoi(fn[j+1:])
			if err != nil {
				return "", fmt.Errorf("bad ordinal")
			}
			k, fn = n, fn[:j]
		}
		st = findLocalStruct(w.pkg, fn, k)
		if st == nil {
			return "", fmt.Errorf("no struct literal type #%d in %s", k, fn)
		}
	} else {
		obj := w.pkg.Types.Scope().Lookup(owner)
		tn, ok := obj.(*types.TypeName)
		if !ok {
			return "", fmt.Errorf("no type %s", owner)
		}
		st, ok = tn.Type().Underlying().(*types.Struct)
		if !ok {
			return "", fmt.Errorf("%s is not a struct", owner)
		}
	}
	for i := 0; i < st.NumFields(); i++ {
		if st.Field(i).Name() != field {
			continue
		}
		tag := reflect.StructTag(st.Tag(i)).Get("xml")
		parts := strings.Split(tag, ",")
		name := strings.TrimSpace(parts[0])
		kind := "element"
		for _, f := range parts[1:] {
			switch strings.TrimSpace(f) {
			case "attr":
				kind = "attr"
			case "chardata", "cdata":
				kind = "chardata"
			case "innerxml":
				kind = "innerxml"
			case "any":
				kind = "any"
			case "comment":
				kind = "comment"
			}
		}
		if name == "-" {
			return "skipped", nil
		}
		if name == "" && (kind == "attr" || kind == "element") {
			name = st.Field(i).Name()
		}
		if kind == "chardata" || kind == "innerxml" || kind == "any" || kind == "comment" {
			name = ""
		}
		if name != "" {
			return kind + " " + name, nil
		}
		return kind, nil
	}
	return "", fmt.Errorf("no field %s", field)
}

// findLocalStruct: the k-th (1-based, source order) anonymous struct type
// written inside the named function or method ("Name" or "(*T).Name"/"(T).Name").
func findLocalStruct(p *packages.Package, fn string, k int) *types.Struct {
	recv, name := "", fn
	if strings.HasPrefix(fn, "(") {
		j := strings.Index(fn, ").")
		if j < 0 {
			return nil
		}
		recv, name = strings.TrimPrefix(fn[1:j], "*"), fn[j+2:]
	}
	for _, f := range p.Syntax {
		for _, d := range f.Decls {
			fd, ok := d.(*ast.FuncDecl)
			if !ok || fd.Name.Name != name || fd.Body == nil {
				continue
			}
			r := ""
			if fd.Recv != nil && len(fd.Recv.List) == 1 {
				t := fd.Recv.List[0].Type
				if s, ok := t.(*ast.StarExpr); ok {
					t = s.X
				}
				if id, ok := t.(*ast.Ident); ok {
					r = id.Name
				}
			}
			if r != recv {
				continue
			}
			n := 0
			var found *types.Struct
			ast.Inspect(fd.Body, func(nd ast.Node) bool {
				if found != nil {
					return false
				}
				if s, ok := nd.(*ast.StructType); ok {
					n++
					if n == k {
						if t, ok := p.TypesInfo.TypeOf(s).(*types.Struct); ok {
							found = t
						}
						return false
					}
				}
				return true
			})
			return found
		}
	}
	return nil
}
