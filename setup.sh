#!/bin/sh
# Builds the gvc verifier offline from files on disk.
set -e
export GOFLAGS=-mod=mod GOPROXY=off GOSUMDB=off GOTOOLCHAIN=local CGO_ENABLED=0
cd /verif/gvc
mkdir -p /verif/bin
go build -o /verif/bin/gvc ./cmd/gvc
