#!/usr/bin/env python3
import json,sys
pid, wt, n = sys.argv[1], sys.argv[2], int(sys.argv[3]) if len(sys.argv)>3 else 3
extra = sys.argv[4] if len(sys.argv)>4 else ''
p={json.loads(l)['id']:json.loads(l) for l in open('/verif/properties.jsonl')}[pid]
files=', '.join(p['anchors']['files'])
print(f"""You are helping test a verification setup for the Go library mellium.im/xmpp (an XMPP client/server library). You have your own scratch git worktree of the repository at {wt} (work ONLY inside it; never touch /repo or /verif; do not read anything under /verif). `git status` there shows some deleted files named contracts_verif.go: ignore them, do not restore or recreate them, and never use `git checkout -- .` (restore only the files you changed, e.g. `git checkout -- path/to/file.go`). The sandbox has no network: every shell command that runs go must start with `export GOFLAGS=-mod=mod GOPROXY=off GOSUMDB=off GOTOOLCHAIN=local`.

Property under test — "{p['title']}":
{p['statement']}
It must hold {p['quantifier']['text']}.
The code that implements it is mainly in: {files}.

Task: produce {n} DIFFERENT small changes (mutations) to the NON-TEST source code of the library, each of which (1) still compiles (`go build ./...`), (2) still passes the existing test suite (`cd {wt} && go test -count=1 -vet=off ./...` — at minimum the packages you touched and the root package), but (3) breaks the property above. Prefer changes that need something specific to manifest — an unusual input, a multi-step sequence of operations, a particular ordering, a fault at a particular point, or two cooperating sites that each look fine alone — NOT changes that ordinary use would expose at once. Realistic slips a maintainer could make (off-by-one, wrong comparison, swapped arguments, dropped case, wrong variable, missing check, wrong constant) are ideal. Spread the mutations over different functions/aspects of the property. {extra}

For mutation k (k=1..{n}) deliver under {wt}/seed<k>/ :
 - patch.diff : `git diff -- <the source files you changed>` (must apply with `git apply` at the repository root of a clean checkout of the same commit; the patches must be independent: make one, save it, restore the files, then make the next).
 - demo_test.go : a Go test file (say in a header comment which package directory it must be dropped into and the exact command to run it) with a test that FAILS with the mutation applied and PASSES on the clean tree.
 - notes.txt : 3-6 lines: what was changed, why the existing tests miss it, what specific input/sequence is needed to see it.
Verify all three claims yourself for each mutation (existing tests pass with the patch, demo fails with the patch, demo passes without it), remove any demo copies you placed inside package directories, and restore the files you changed. Report briefly what you did and the outcome of those verification runs. If while reading the code you notice that the CLEAN tree already violates the property for some input, say so in your report with the concrete input (do not fix it).""")
