#!/bin/sh
# buildmutants.sh [prop]: every patch of the must-fail corpus must still compile (go build + go vet-less test build of the touched package)
export GOFLAGS=-mod=mod GOPROXY=off GOSUMDB=off GOTOOLCHAIN=local CGO_ENABLED=0
scratch=$(mktemp -d /tmp/gvc-build-XXXXXX); trap 'rm -rf "$scratch"' EXIT
rsync -a --exclude .git /repo/ "$scratch/repo/"
fail=0
for p in /verif/selftest/${1:-*}/*.patch; do
  (cd "$scratch/repo" && patch -p1 -s < "$p" >/dev/null 2>&1) || { echo "NOAPPLY $p"; fail=1; continue; }
  if ! (cd "$scratch/repo" && go build ./... >/dev/null 2>"$scratch/err"); then echo "NOBUILD $p: $(head -2 $scratch/err | tr '\n' ' ')"; fail=1; fi
  (cd "$scratch/repo" && patch -p1 -R -s < "$p" >/dev/null 2>&1)
done
echo "buildmutants: fail=$fail"
