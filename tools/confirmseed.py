#!/usr/bin/env python3
"""confirmseed.py <seed dir> <property> <pkg dir rel to repo> [needs text]
Confirms a seeded change in a scratch worktree of /repo: patch applies, builds, the
package's existing tests pass with it, the demo fails with it and passes without it.
Then runs the registered quick check against it in /repo (apply, check, revert) and writes meta.json."""
import sys, os, subprocess, json, shutil, tempfile, glob
seed, prop, pkg = sys.argv[1], sys.argv[2], sys.argv[3]
needs = sys.argv[4] if len(sys.argv) > 4 else ''
env = dict(os.environ, GOFLAGS='-mod=mod', GOPROXY='off', GOSUMDB='off', GOTOOLCHAIN='local')
def run(cmd, cwd):
    r = subprocess.run(cmd, cwd=cwd, env=env, shell=True, capture_output=True, text=True)
    return r.returncode, (r.stdout + r.stderr)[-3000:]
wt = tempfile.mkdtemp(prefix='wt-confirm-')
os.rmdir(wt)
run(f'git worktree add --detach {wt} HEAD -q', '/repo')
meta = {'property': prop, 'package': pkg, 'needs': needs, 'ran': []}
try:
    demos = glob.glob(os.path.join(seed, '*_test.go'))
    def put_demo():
        for d in demos:
            shutil.copy(d, os.path.join(wt, pkg, 'zz_seed_' + os.path.basename(d)))
    def rm_demo():
        for f in glob.glob(os.path.join(wt, pkg, 'zz_seed_*')):
            os.remove(f)
    # demo passes on clean tree
    put_demo()
    rc, out = run(f'go test -count=1 -vet=off ./{pkg}', wt)
    meta['demo_passes_clean'] = rc == 0
    meta['ran'].append(f'clean tree + demo: go test ./{pkg} -> rc={rc}')
    rm_demo()
    rc, out = run(f'git apply {os.path.abspath(seed)}/patch.diff', wt)
    meta['patch_applies'] = rc == 0
    rc, out = run('go build ./... ', wt)
    meta['builds'] = rc == 0
    rc, out = run(f'go test -count=1 -vet=off ./{pkg}', wt)
    meta['existing_tests_pass_with_patch'] = rc == 0
    meta['ran'].append(f'patched tree: go build ./... && go test ./{pkg} -> rc={rc}')
    put_demo()
    rc, out = run(f'go test -count=1 -vet=off ./{pkg}', wt)
    meta['demo_fails_with_patch'] = rc != 0
    meta['ran'].append(f'patched tree + demo: go test ./{pkg} -> rc={rc}')
    meta['demo_output_tail'] = out[-600:]
finally:
    run(f'git worktree remove --force {wt}', '/repo')
# now the check
rc, out = run(f'/verif/tools/tryseed.sh {os.path.abspath(seed)}/patch.diff {prop}', '/verif')
meta['check_detects'] = rc == 1
meta['check_output'] = [l for l in out.splitlines() if l.startswith('VIOLATION') or l.startswith('property=') or 'exit=' in l][:12]
meta['ran'].append(f'git -C /repo apply patch; /verif/check.sh {prop} quick; git -C /repo checkout -- . -> detected={rc==1}')
if os.path.exists(os.path.join(seed, 'notes.txt')):
    meta['what'] = open(os.path.join(seed, 'notes.txt')).read()[:1500]
json.dump(meta, open(os.path.join(seed, 'meta.json'), 'w'), indent=1)
ok = all(meta.get(k) for k in ['demo_passes_clean', 'patch_applies', 'builds', 'existing_tests_pass_with_patch', 'demo_fails_with_patch'])
print(os.path.basename(seed), 'CONFIRMED' if ok else 'NOT-CONFIRMED', 'detected' if meta['check_detects'] else 'MISSED')
