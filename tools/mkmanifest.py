#!/usr/bin/env python3
"""Regenerates /verif/MANIFEST.json from tools/claims.json and properties.jsonl."""
import json, subprocess, os
V = '/verif'
props = [json.loads(l) for l in open(f'{V}/properties.jsonl')]
claims = json.load(open(f'{V}/tools/claims.json'))
hooks = subprocess.run(['git', '-C', '/repo', 'log', '--format=%H %s'], capture_output=True, text=True).stdout.splitlines()
hook_commits = [l.split()[0] for l in hooks if l.split(' ', 1)[1].startswith('verif:')]
checks, na = [], []
for p in props:
    c = claims.get(p['id'])
    if c and c.get('claim'):
        checks.append({
            'property_id': p['id'],
            'quick_cmd': f"/verif/check.sh {p['id']} quick",
            'thorough_cmd': f"/verif/check.sh {p['id']} thorough",
            'evidence_file': f"/verif/evidence/{p['id']}.json",
            'replay_cmd_template': 'cat {path}',
            'engine': 'gvc',
            'level_claimed': {'category': 'proof', 'text': c['text'], 'design_ref': c.get('design_ref', 'DESIGN.md section 5')},
            'level_note': c['note'],
            'technique': c.get('technique', 'contract-based deductive verification: weakest-precondition VCs generated from go/ssa of /repo, contracts in //go:build verif comment files, discharged by z3/cvc5'),
        })
    else:
        na.append({'property_id': p['id'], 'reason': (c or {}).get('reason', 'not yet claimed: contracts for this property are still being built (see DESIGN.md section 8)')})
m = {
    'version': 1,
    'setup_cmd': 'sh /verif/setup.sh',
    'hooks': {'guard': 'verif', 'enable': 'contracts live in comment-only files <pkg>/contracts_verif.go guarded by //go:build verif; gvc loads /repo with -tags=verif',
              'baseline_off_cmd': 'cd /repo && GOFLAGS=-mod=mod go test -vet=off -count=1 -timeout 25m ./...',
              'source_commits': hook_commits, 'add_only': True},
    'engines': [{'name': 'gvc', 'path': '/verif/gvc', 'serves_properties': [c['property_id'] for c in checks],
                 'kind_free_text': 'VC generator over go/ssa of /repo working tree; Gobra-style contracts in //go:build verif comment files; obligations discharged by z3 4.8.12 / z3 5.1.0 / cvc5 1.0.3 (raced)'}],
    'checks': checks,
    'notes': 'See DESIGN.md. Known findings: /verif/known_findings.jsonl.',
    'not_applicable': na,
}
json.dump(m, open(f'{V}/MANIFEST.json', 'w'), indent=1)
print('checks', len(checks), 'not_applicable', len(na))
