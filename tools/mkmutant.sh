#!/bin/sh
# mkmutant.sh <property> <name> <file> <python-replace-old> <new>   : creates /verif/selftest/<property>/<name>.patch
prop="$1"; name="$2"; file="$3"; old="$4"; new="$5"
mkdir -p /verif/selftest/$prop
tmp=$(mktemp -d); mkdir -p $tmp/a/$(dirname $file) $tmp/b/$(dirname $file)
cp /repo/$file $tmp/a/$file
python3 - "$tmp/a/$file" "$tmp/b/$file" "$old" "$new" <<'PY'
import sys
s=open(sys.argv[1]).read()
old,new=sys.argv[3],sys.argv[4]
if s.count(old)!=1:
    print("ERROR: pattern occurs",s.count(old),"times"); sys.exit(1)
open(sys.argv[2],'w').write(s.replace(old,new))
PY
[ $? -eq 0 ] || { rm -rf $tmp; exit 1; }
(cd $tmp && diff -u a/$file b/$file > /verif/selftest/$prop/$name.patch)
rm -rf $tmp
echo "created /verif/selftest/$prop/$name.patch"
