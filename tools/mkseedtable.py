#!/usr/bin/env python3
"""Regenerates the seed table inside DESIGN.md section 10.5 from seeded/*/meta.json."""
import json,glob,os,re
rows=[]
for d in sorted(glob.glob('/verif/seeded/*/')):
    m=os.path.join(d,'meta.json')
    if not os.path.exists(m): continue
    j=json.load(open(m)); name=os.path.basename(d[:-1]); obls=[]
    for l in j.get('check_output',[]):
        if l.startswith('VIOLATION'):
            r=l.split('replay=')[1].split(' ')[0]
            obls.append(os.path.basename(r).rsplit('-',1)[0][-60:])
    rows.append((j['property'],name,'detected' if j.get('check_detects') else ('thorough tier only' if j.get('thorough_detects') else '**missed**'),len(obls),obls[0] if obls else ''))
out=['| property | seeded change (directory under /verif/seeded) | quick check | failing obligations | first failing obligation (file name tail) |','|---|---|---|---|---|']
for r in rows: out.append('| %s | %s | %s | %d | `%s` |'%r)
p='/verif/DESIGN.md'; c=open(p).read()
i=c.index('| property | seeded change (directory under /verif/seeded)')
j=c.index('\n\n',i)
c=c[:i]+'\n'.join(out)+c[j:]
n=len(rows); miss=[r[1] for r in rows if 'missed' in r[2]]
c=re.sub(r'\d+ seeded changes, \d+ missed\.', '%d seeded changes, %d missed.'%(n,len(miss)), c)
c=re.sub(r'hand-written mutants under /verif/selftest \(\d+ patches in total\)', 'hand-written mutants under /verif/selftest (%d patches in total)'%(n+len(glob.glob('/verif/selftest/*/*.patch'))), c)
open(p,'w').write(c)
print(n,'seeds, missed:',miss)
