#!/bin/sh
# mkwt.sh <name>: scratch worktree of /repo HEAD at /tmp/wt-<name> without the contract files
cd /repo && git worktree add --detach /tmp/wt-$1 HEAD -q && find /tmp/wt-$1 -name contracts_verif.go -delete && (cd /tmp/wt-$1 && git update-index --assume-unchanged $(git ls-files -d) 2>/dev/null; true) && echo /tmp/wt-$1
