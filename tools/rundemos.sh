#!/bin/sh
# rundemos.sh: every seeded demo must pass on the current clean tree (regression suite for the fix: commits)
export GOFLAGS=-mod=mod GOPROXY=off GOSUMDB=off GOTOOLCHAIN=local
wt=/tmp/wt-demos-$$; git -C /repo worktree add --detach $wt HEAD -q || exit 2
trap 'git -C /repo worktree remove --force $wt' EXIT
fail=0
for d in /verif/seeded/*/; do
  [ -f "$d/meta.json" ] || continue
  pkg=$(python3 -c "import json;print(json.load(open('$d/meta.json'))['package'])")
  for t in "$d"/*_test.go; do cp "$t" "$wt/$pkg/zz_seed_$(basename $t)"; done
  if (cd $wt && go test -count=1 -vet=off -timeout 300s ./$pkg > /tmp/demo.$$.out 2>&1); then echo "DEMO ok   $(basename $d)"; else echo "DEMO FAIL $(basename $d): $(grep -m2 -E 'FAIL|panic|Error' /tmp/demo.$$.out | tr '\n' ' ' | cut -c1-160)"; fail=1; fi
  rm -f $wt/$pkg/zz_seed_*
done
rm -f /tmp/demo.$$.out
echo "rundemos: fail=$fail"
