#!/bin/sh
# Must-fail corpus: every patch under /verif/selftest/<property>/*.patch and every seeded change under
# /verif/seeded/<name>/patch.diff (property from meta.json) is applied to a scratch copy of /repo;
# the property's quick check must exit 1 there. Usage: selftest.sh [property]
export GOFLAGS=-mod=mod GOPROXY=off GOSUMDB=off GOTOOLCHAIN=local CGO_ENABLED=0
only="$1"
fail=0; n=0
scratch=$(mktemp -d /tmp/gvc-selftest-XXXXXX)
trap 'rm -rf "$scratch"' EXIT
# snapshot of the tree and the verifier taken once, so that /repo and /verif/bin may change while this runs
rsync -a --exclude .git /repo/ "$scratch/base/"
cp /verif/bin/gvc "$scratch/gvc"
run_one() { # patch property
  patch="$1"; prop="$2"
  [ -n "$only" ] && [ "$only" != "$prop" ] && return
  rm -rf "$scratch/repo" "$scratch/verif"; mkdir -p "$scratch/verif"
  rsync -a "$scratch/base/" "$scratch/repo/"
  cp /verif/properties.jsonl /verif/known_findings.jsonl "$scratch/verif/" 2>/dev/null
  if ! (cd "$scratch/repo" && patch -p1 -s < "$patch" >/dev/null 2>&1); then echo "SELFTEST $prop $(basename $(dirname $patch))/$(basename $patch): PATCH-DOES-NOT-APPLY"; fail=1; return; fi
  "$scratch/gvc" check -repo "$scratch/repo" -verif "$scratch/verif" -property "$prop" -tier quick > "$scratch/out" 2>&1; rc=$?
  n=$((n+1))
  if [ $rc -eq 1 ] && grep -q '^VIOLATION' "$scratch/out"; then
    echo "SELFTEST $prop $(basename $(dirname $patch))/$(basename $patch): detected ($(grep -c '^VIOLATION' $scratch/out) obligations)"
  else
    echo "SELFTEST $prop $(basename $(dirname $patch))/$(basename $patch): MISSED (rc=$rc)"; fail=1
  fi
}
for d in /verif/selftest/*/; do
  prop=$(basename "$d")
  for p in "$d"*.patch; do [ -f "$p" ] && run_one "$p" "$prop"; done
done
for d in /verif/seeded/*/; do
  [ -f "$d/meta.json" ] || continue
  prop=$(python3 -c "import json,sys; print(json.load(open('$d/meta.json'))['property'])")
  run_one "$d/patch.diff" "$prop"
done
echo "selftest: $n mutants, fail=$fail"
exit $fail
