#!/bin/sh
# usage: tryseed.sh <patch.diff> <property>...   applies the patch to /repo, runs the quick checks, reverts.
p="$1"; shift
cd /repo || exit 2
if [ -n "$(git status --porcelain)" ]; then echo "REFUSING: /repo has uncommitted changes (commit them first)"; exit 4; fi
if ! git apply --check "$p" 2>/dev/null; then echo "PATCH DOES NOT APPLY: $p"; exit 3; fi
git apply "$p"
rc=0
for prop in "$@"; do
  /verif/check.sh "$prop" quick > /tmp/tryseed.$$.out 2>&1; r=$?
  grep -E "^VIOLATION|^KNOWN|^property=" /tmp/tryseed.$$.out | cut -c1-220
  echo "  -> $prop exit=$r"
  [ $r -ne 0 ] && rc=1
done
rm -f /tmp/tryseed.$$.out
git checkout -- . 
# the checks above rewrote the evidence files from the patched tree: rewrite
# them from the clean tree so that what is committed describes the real code
for prop in "$@"; do /verif/check.sh "$prop" quick > /dev/null 2>&1; done
exit $rc
